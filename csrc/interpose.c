/* LD_PRELOAD allocation event logger (engine E7, property C13).
 *
 * Wraps malloc/calloc/realloc/free.  A thread-local "in kernel" flag, set only inside the C
 * trampoline verif_call(), makes every block allocated *by a kernel* a tracked block; realloc
 * transfers tracking to the new address; free/realloc of a tracked address is always logged.  A
 * free of a recently freed tracked address that was not handed out again is logged as a double
 * free.  The harness writes logical-time marks with verif_mark().
 *
 * Log lines (text, one write() each, to the file named by VERIF_ALLOC_LOG):
 *   K <n>                      mark
 *   E / X                      kernel enter / exit (trampoline)
 *   M <addr> <bytes>           malloc in kernel
 *   R <old> <new> <bytes> <k>  realloc of a tracked block (k = 1 if performed inside a kernel)
 *   N <new> <bytes>            realloc(NULL or untracked) inside a kernel -> new tracked block
 *   F <addr> <k>               free of a tracked block
 *   D <addr>                   free of an already freed tracked block (double free)
 */
#define _GNU_SOURCE
#include <dlfcn.h>
#include <fcntl.h>
#include <pthread.h>
#include <stdint.h>
#include <stdio.h>
#include <stdlib.h>
#include <string.h>
#include <unistd.h>

static void *(*real_malloc)(size_t);
static void *(*real_calloc)(size_t, size_t);
static void *(*real_realloc)(void *, size_t);
static void (*real_free)(void *);

static __thread int in_kernel = 0;
static __thread int in_hook = 0;
static int log_fd = -1;
static int initialised = 0;
static pthread_mutex_t lock = PTHREAD_MUTEX_INITIALIZER;

#define TABLE_BITS 18
#define TABLE_SIZE (1u << TABLE_BITS)
/* state: 0 empty, 1 tracked live, 2 tracked freed (tombstone with meaning), 3 deleted */
static uintptr_t keys[TABLE_SIZE];
static unsigned char state[TABLE_SIZE];

static char boot[65536];
static size_t boot_used = 0;

static unsigned slot_of(uintptr_t a) { return (unsigned)((a >> 4) * 2654435761u) & (TABLE_SIZE - 1); }

static int find(uintptr_t a) {
  unsigned s = slot_of(a);
  for (unsigned i = 0; i < TABLE_SIZE; i++) {
    unsigned k = (s + i) & (TABLE_SIZE - 1);
    if (state[k] == 0) return -1;
    if (state[k] != 3 && keys[k] == a) return (int)k;
  }
  return -1;
}

static void put(uintptr_t a, unsigned char st) {
  int k = find(a);
  if (k >= 0) { state[k] = st; return; }
  unsigned s = slot_of(a);
  for (unsigned i = 0; i < TABLE_SIZE; i++) {
    unsigned j = (s + i) & (TABLE_SIZE - 1);
    if (state[j] == 0 || state[j] == 3) { keys[j] = a; state[j] = st; return; }
  }
}

static void drop(uintptr_t a) {
  int k = find(a);
  if (k >= 0) state[k] = 3;
}

static void emit(const char *buf, int n) {
  if (log_fd >= 0) { ssize_t r = write(log_fd, buf, (size_t)n); (void)r; }
}

static void init(void) {
  if (initialised) return;
  initialised = 1;
  real_malloc = dlsym(RTLD_NEXT, "malloc");
  real_calloc = dlsym(RTLD_NEXT, "calloc");
  real_realloc = dlsym(RTLD_NEXT, "realloc");
  real_free = dlsym(RTLD_NEXT, "free");
  const char *path = getenv("VERIF_ALLOC_LOG");
  if (path && *path) log_fd = open(path, O_WRONLY | O_CREAT | O_APPEND, 0644);
}

static int is_boot(void *p) { return (char *)p >= boot && (char *)p < boot + sizeof boot; }

void *malloc(size_t n) {
  if (!real_malloc) {
    if (initialised) { /* inside dlsym during init */
      size_t a = (boot_used + 15) & ~(size_t)15;
      if (a + n > sizeof boot) return NULL;
      boot_used = a + n;
      return boot + a;
    }
    init();
  }
  void *p = real_malloc(n);
  if (in_hook) return p;
  if (p) {
    in_hook = 1;
    pthread_mutex_lock(&lock);
    if (in_kernel) {
      put((uintptr_t)p, 1);
      char b[96];
      int m = snprintf(b, sizeof b, "M %lx %zu\n", (unsigned long)(uintptr_t)p, n);
      emit(b, m);
    } else {
      int k = find((uintptr_t)p);
      if (k >= 0 && state[k] == 2) state[k] = 3; /* address handed out again */
    }
    pthread_mutex_unlock(&lock);
    in_hook = 0;
  }
  return p;
}

void *calloc(size_t a, size_t b) {
  if (!real_calloc) {
    if (initialised) {
      size_t n = a * b;
      size_t o = (boot_used + 15) & ~(size_t)15;
      if (o + n > sizeof boot) return NULL;
      boot_used = o + n;
      memset(boot + o, 0, n);
      return boot + o;
    }
    init();
  }
  void *p = real_calloc(a, b);
  if (in_hook) return p;
  if (p) {
    in_hook = 1;
    pthread_mutex_lock(&lock);
    if (in_kernel) {
      put((uintptr_t)p, 1);
      char buf[96];
      int m = snprintf(buf, sizeof buf, "M %lx %zu\n", (unsigned long)(uintptr_t)p, a * b);
      emit(buf, m);
    } else {
      int k = find((uintptr_t)p);
      if (k >= 0 && state[k] == 2) state[k] = 3;
    }
    pthread_mutex_unlock(&lock);
    in_hook = 0;
  }
  return p;
}

void *realloc(void *old, size_t n) {
  if (!real_realloc) init();
  if (old && is_boot(old)) {
    void *p = real_malloc(n);
    if (p) memcpy(p, old, n);
    return p;
  }
  if (in_hook) return real_realloc(old, n);
  in_hook = 1;
  pthread_mutex_lock(&lock);
  int k = old ? find((uintptr_t)old) : -1;
  int tracked = (k >= 0 && state[k] == 1);
  int freed_before = (k >= 0 && state[k] == 2);
  pthread_mutex_unlock(&lock);
  void *p = real_realloc(old, n);
  pthread_mutex_lock(&lock);
  char b[128];
  if (tracked) {
    drop((uintptr_t)old);
    if (p) put((uintptr_t)p, 1); else put((uintptr_t)old, 2);
    int m = snprintf(b, sizeof b, "R %lx %lx %zu %d\n", (unsigned long)(uintptr_t)old, (unsigned long)(uintptr_t)p, n, in_kernel);
    emit(b, m);
  } else if (freed_before) {
    int m = snprintf(b, sizeof b, "D %lx\n", (unsigned long)(uintptr_t)old);
    emit(b, m);
  } else if (in_kernel && p) {
    put((uintptr_t)p, 1);
    int m = snprintf(b, sizeof b, "N %lx %zu\n", (unsigned long)(uintptr_t)p, n);
    emit(b, m);
  } else if (p) {
    int j = find((uintptr_t)p);
    if (j >= 0 && state[j] == 2) state[j] = 3;
  }
  pthread_mutex_unlock(&lock);
  in_hook = 0;
  return p;
}

void free(void *p) {
  if (!p) return;
  if (is_boot(p)) return;
  if (!real_free) init();
  if (!in_hook) {
    in_hook = 1;
    pthread_mutex_lock(&lock);
    int k = find((uintptr_t)p);
    if (k >= 0 && state[k] == 1) {
      state[k] = 2;
      char b[64];
      int m = snprintf(b, sizeof b, "F %lx %d\n", (unsigned long)(uintptr_t)p, in_kernel);
      emit(b, m);
    } else if (k >= 0 && state[k] == 2) {
      char b[64];
      int m = snprintf(b, sizeof b, "D %lx\n", (unsigned long)(uintptr_t)p);
      emit(b, m);
      pthread_mutex_unlock(&lock);
      in_hook = 0;
      return; /* do not let glibc abort: the event is in the log */
    }
    pthread_mutex_unlock(&lock);
    in_hook = 0;
  }
  real_free(p);
}

static void handed_out(void *p) {
  if (!p || in_hook) return;
  in_hook = 1;
  pthread_mutex_lock(&lock);
  int k = find((uintptr_t)p);
  if (k >= 0 && state[k] == 2) state[k] = 3;
  if (k >= 0 && state[k] == 1) state[k] = 3; /* cannot be live: stale entry */
  pthread_mutex_unlock(&lock);
  in_hook = 0;
}

int posix_memalign(void **out, size_t align, size_t n) {
  static int (*real)(void **, size_t, size_t);
  if (!real) real = dlsym(RTLD_NEXT, "posix_memalign");
  int r = real(out, align, n);
  if (r == 0) handed_out(*out);
  return r;
}

void *aligned_alloc(size_t align, size_t n) {
  static void *(*real)(size_t, size_t);
  if (!real) real = dlsym(RTLD_NEXT, "aligned_alloc");
  void *p = real(align, n);
  handed_out(p);
  return p;
}

void *memalign(size_t align, size_t n) {
  static void *(*real)(size_t, size_t);
  if (!real) real = dlsym(RTLD_NEXT, "memalign");
  void *p = real(align, n);
  handed_out(p);
  return p;
}

void verif_mark(long n) {
  char b[48];
  int m = snprintf(b, sizeof b, "K %ld\n", n);
  pthread_mutex_lock(&lock);
  emit(b, m);
  pthread_mutex_unlock(&lock);
}

int verif_present(void) { return 1; }

typedef int32_t (*k1)(void *);
typedef int32_t (*k2)(void *, void *);
typedef int32_t (*k3)(void *, void *, void *);
typedef int32_t (*k4)(void *, void *, void *, void *);
typedef int32_t (*k5)(void *, void *, void *, void *, void *);
typedef int32_t (*k6)(void *, void *, void *, void *, void *, void *);

/* C trampoline: the in-kernel window contains nothing but the kernel. */
int32_t verif_call(void *fn, int n, void **a) {
  int32_t r = -12345;
  pthread_mutex_lock(&lock);
  emit("E\n", 2);
  pthread_mutex_unlock(&lock);
  in_kernel = 1;
  switch (n) {
    case 1: r = ((k1)fn)(a[0]); break;
    case 2: r = ((k2)fn)(a[0], a[1]); break;
    case 3: r = ((k3)fn)(a[0], a[1], a[2]); break;
    case 4: r = ((k4)fn)(a[0], a[1], a[2], a[3]); break;
    case 5: r = ((k5)fn)(a[0], a[1], a[2], a[3], a[4]); break;
    case 6: r = ((k6)fn)(a[0], a[1], a[2], a[3], a[4], a[5]); break;
    default: break;
  }
  in_kernel = 0;
  pthread_mutex_lock(&lock);
  emit("X\n", 2);
  pthread_mutex_unlock(&lock);
  return r;
}
