"""Verdict discipline, evidence files, known findings, replay files (DESIGN.md sec. 2)."""

from __future__ import annotations

import json
import os
import re
import sys
import time

ROOT = os.path.dirname(os.path.dirname(os.path.abspath(__file__)))
EVIDENCE_DIR = os.path.join(ROOT, "evidence")
REPLAY_DIR = os.path.join(ROOT, "replays")
WORK_DIR = os.path.join(ROOT, ".work")
KNOWN_FILE = os.path.join(ROOT, "known_findings.txt")

EXIT_HELD = 0
EXIT_VIOLATION = 1
EXIT_INCONCLUSIVE = 2


def seed_from_env(default=0):
    try:
        return int(os.environ.get("VERIF_SEED", default))
    except ValueError:
        return default


def load_known():
    """-> {property_id: {key: text}} for `open:` lines.  `fixed:` lines suppress nothing."""
    out = {}
    if not os.path.exists(KNOWN_FILE):
        return out
    for line in open(KNOWN_FILE):
        line = line.strip()
        if not line.startswith("open:"):
            continue
        m = re.match(r"open:\s+property=(\S+)\s+key=(\S+)\s+(.*)$", line)
        if m:
            out.setdefault(m.group(1), {})[m.group(2)] = m.group(3)
    return out


def jsonable(x, depth=0):
    if depth > 12:
        return repr(x)
    if isinstance(x, (str, int, bool)) or x is None:
        return x
    if isinstance(x, float):
        if x != x or x in (float("inf"), float("-inf")):
            return repr(x)
        return x
    if isinstance(x, dict):
        return {str(k): jsonable(v, depth + 1) for k, v in x.items()}
    if isinstance(x, (list, tuple, set, frozenset)):
        seq = sorted(x, key=repr) if isinstance(x, (set, frozenset)) else x
        return [jsonable(v, depth + 1) for v in seq]
    return repr(x)


class Run:
    """One execution of one check.  Collects violations, known-finding hits, counters and samples;
    `finish()` writes the evidence file, prints the verdict lines and returns the exit code."""

    def __init__(self, pid: str, tier: str, level: str, rule: str):
        self.pid = pid
        self.tier = tier
        self.level = level
        self.rule = rule
        self.seed = seed_from_env()
        self.t0 = time.time()
        self.known = load_known().get(pid, {})
        self.violations = {}  # class key -> witness (first of its class)
        self.violation_counts = {}
        self.known_hits = {}  # key -> count
        self.known_witness = {}
        self.inconclusive = []
        self.evaluations = 0
        self.distinct = set()
        self.counters = {}
        self.samples = []
        self.assumptions = []
        self.extra = {}
        self.exhaustive = None
        self.linecov_dir = None
        if rule and "VERIF_LINECOV_DIR" not in os.environ:
            self.start_linecov()  # the parent process of a check (shard workers pass an empty rule)

    def start_linecov(self):
        """Parent check only: ask every child process of this run to record which lines of tensora
        it executes (verif/linecov.py); finish() turns the union into anchor-line coverage."""
        if os.environ.get("VERIF_NO_LINECOV"):
            return
        d = os.path.join(WORK_DIR, f"linecov-{os.getpid()}")
        os.makedirs(d, exist_ok=True)
        self.linecov_dir = d
        os.environ["VERIF_LINECOV_DIR"] = d
        try:
            from . import linecov

            linecov.start_from_env()
        except Exception:
            pass

    # ---- recording
    def count(self, name, n=1):
        self.counters[name] = self.counters.get(name, 0) + n

    def evaluated(self, n=1):
        self.evaluations += n

    def nontrivial(self, key):
        self.distinct.add(key if isinstance(key, (str, int, tuple)) else repr(key))

    def sample(self, s, limit=6):
        if len(self.samples) < limit:
            self.samples.append(jsonable(s))

    def violation(self, cls: str, witness: dict, known_key: str | None = None):
        """Record a violation of class `cls`.  If `known_key` names an open known finding of this
        property it is reported as KNOWN-FINDING instead."""
        if known_key is not None and known_key in self.known:
            self.known_hits[known_key] = self.known_hits.get(known_key, 0) + 1
            self.known_witness.setdefault(known_key, jsonable(witness))
            return
        self.violation_counts[cls] = self.violation_counts.get(cls, 0) + 1
        if cls not in self.violations:
            w = dict(witness)
            if known_key is not None:
                w["unlisted_known_key"] = known_key
            self.violations[cls] = jsonable(w)

    def inconclusive_because(self, reason: str):
        if reason not in self.inconclusive:
            self.inconclusive.append(reason)

    # ---- shards
    def to_dict(self):
        return {
            "evaluations": self.evaluations,
            "distinct": sorted(str(k) for k in self.distinct),
            "counters": self.counters,
            "samples": self.samples,
            "violations": self.violations,
            "violation_counts": self.violation_counts,
            "known_hits": self.known_hits,
            "known_witness": self.known_witness,
            "inconclusive": self.inconclusive,
            "extra": jsonable(self.extra),
        }

    def merge(self, d):
        self.evaluations += d["evaluations"]
        self.distinct.update(d["distinct"])
        for k, v in d["counters"].items():
            if k.startswith("max_") and isinstance(v, (int, float)):
                self.counters[k] = max(self.counters.get(k, 0), v)
            elif isinstance(v, (int, float)):
                self.counters[k] = self.counters.get(k, 0) + v
            elif isinstance(v, dict):
                cur = self.counters.setdefault(k, {})
                for kk, vv in v.items():
                    cur[kk] = cur.get(kk, 0) + vv
            else:
                self.counters[k] = v
        for s_ in d["samples"]:
            self.sample(s_)
        for cls, w in d["violations"].items():
            self.violation_counts[cls] = self.violation_counts.get(cls, 0) + d["violation_counts"].get(cls, 1)
            self.violations.setdefault(cls, w)
        for k, n in d["known_hits"].items():
            self.known_hits[k] = self.known_hits.get(k, 0) + n
        for k, w in d["known_witness"].items():
            self.known_witness.setdefault(k, w)
        for r in d["inconclusive"]:
            self.inconclusive_because(r)
        for k, v in d.get("extra", {}).items():
            if isinstance(v, (int, float)) and isinstance(self.extra.get(k, 0), (int, float)):
                self.extra[k] = self.extra.get(k, 0) + v
            else:
                self.extra.setdefault(k, v)

    def countd(self, name, key, n=1):
        d = self.counters.setdefault(name, {})
        d[str(key)] = d.get(str(key), 0) + n

    # ---- finishing
    def finish(self, coverage_extra=None):
        os.makedirs(EVIDENCE_DIR, exist_ok=True)
        os.makedirs(REPLAY_DIR, exist_ok=True)
        wall = time.time() - self.t0
        lines = []
        for key, n in sorted(self.known_hits.items()):
            lines.append(f"KNOWN-FINDING: property={self.pid} {key}: {self.known[key]} (observed {n}x this run)")
        for i, (cls, w) in enumerate(sorted(self.violations.items())):
            safe = re.sub(r"[^A-Za-z0-9_.-]+", "_", cls)[:80]
            path = os.path.join(REPLAY_DIR, f"{self.pid}_{safe}.json")
            with open(path, "w") as f:
                json.dump({"property": self.pid, "class": cls, "seed": self.seed, "tier": self.tier,
                           "count": self.violation_counts[cls], "witness": w}, f, indent=1, sort_keys=True)
            lines.append(f"VIOLATION property={self.pid} replay={path}")
            lines.append(f"  class={cls} count={self.violation_counts[cls]} witness={json.dumps(w, sort_keys=True)[:600]}")
        coverage = {
            "evaluations": int(self.evaluations),
            "distinct_nontrivial": len(self.distinct),
            "rule": self.rule,
            "samples": self.samples if self.samples else [],
            "counters": jsonable(self.counters),
            "known_finding_hits": jsonable(self.known_hits),
            "known_finding_witnesses": self.known_witness,
            "inconclusive_reasons": list(self.inconclusive),
        }
        if self.exhaustive is not None:
            coverage["exhaustive"] = bool(self.exhaustive)
        coverage.update(jsonable(self.extra))
        if coverage_extra:
            coverage.update(jsonable(coverage_extra))
        if self.linecov_dir:
            try:
                from . import linecov

                hits, n_dumps = linecov.collect(self.linecov_dir)
                for fn, ls in linecov.snapshot().items():
                    hits.setdefault(fn, set()).update(ls)
                coverage["anchor_line_coverage"] = linecov.report(hits, anchor_files(self.pid))
                coverage["anchor_line_coverage"]["processes_reporting"] = n_dumps + 1
                coverage["tensora_lines_reached_all_files"] = sum(len(v) for v in hits.values())
            except Exception as e:  # evidence only; never a verdict
                coverage["anchor_line_coverage"] = {"error": repr(e)}
            rm_tree(self.linecov_dir)
            os.environ.pop("VERIF_LINECOV_DIR", None)
        if self.level == "translation_validation":
            coverage.setdefault("programs", int(self.counters.get("programs", self.evaluations)))
            coverage.setdefault("disagreements_checked", int(self.counters.get("comparisons", self.evaluations)))
        ev = {
            "property_id": self.pid,
            "tier": self.tier,
            "seed": int(self.seed),
            "level": self.level,
            "coverage": coverage,
            "assumptions": self.assumptions,
            "wall_s": round(wall, 2),
            "violations": len(self.violations),
        }
        with open(os.path.join(EVIDENCE_DIR, f"{self.pid}.json"), "w") as f:
            json.dump(ev, f, indent=1, sort_keys=True)
        for l in lines:
            print(l)
        summary = (f"{self.pid} tier={self.tier} seed={self.seed} evaluations={self.evaluations} "
                   f"distinct_nontrivial={len(self.distinct)} violations={len(self.violations)} "
                   f"known={sum(self.known_hits.values())} wall={wall:.1f}s")
        if self.violations:
            print("RESULT violated: " + summary)
            sys.stdout.flush()
            return EXIT_VIOLATION
        if self.inconclusive:
            for r in self.inconclusive:
                print(f"INCONCLUSIVE property={self.pid} reason={r}")
            print("RESULT inconclusive: " + summary)
            sys.stdout.flush()
            return EXIT_INCONCLUSIVE
        print("RESULT held on what was observed: " + summary)
        sys.stdout.flush()
        return EXIT_HELD


def anchor_files(pid):
    try:
        for line in open(os.path.join(ROOT, "properties.jsonl")):
            p = json.loads(line)
            if p.get("id") == pid:
                return list(p.get("anchors", {}).get("files", []))
    except (OSError, ValueError):
        pass
    return []


def note_current(obj):
    """Record what this (shard) process is about to do, so that the parent can name the witness if
    the process dies by a signal."""
    try:
        os.makedirs(WORK_DIR, exist_ok=True)
        with open(os.path.join(WORK_DIR, f"current-{os.getpid()}.json"), "w") as f:
            json.dump(jsonable(obj), f)
    except OSError:
        pass


def read_current(pid):
    path = os.path.join(WORK_DIR, f"current-{pid}.json")
    try:
        with open(path) as f:
            d = json.load(f)
    except (OSError, ValueError):
        d = None
    try:
        os.unlink(path)
    except OSError:
        pass
    return d


def work_dir(tag: str):
    d = os.path.join(WORK_DIR, f"{tag}-{os.getpid()}")
    os.makedirs(d, exist_ok=True)
    return d


def rm_tree(path):
    import shutil

    shutil.rmtree(path, ignore_errors=True)


def run_shards(run: "Run", module: str, n_shards: int, timeout_s: int, extra_args=(), env_extra=None, max_parallel=16):
    """Run `python -m verif.worker <module> <tier> <shard> <n_shards> <out.json>` in subprocesses
    (never multiprocessing.Pool: a dying child must not hang the check) and merge the partial
    results into `run`.  A shard that dies by signal or times out is reported, not ignored."""
    import subprocess

    wd = work_dir("shards")
    env = dict(os.environ)
    env["PYTHONHASHSEED"] = env.get("VERIF_CHILD_HASHSEED", "0")
    env["PYTHONPATH"] = ROOT + os.pathsep + os.path.join(ROOT, ".deps") + os.pathsep + env.get("PYTHONPATH", "")
    env["VERIF_SEED"] = str(run.seed)
    if env_extra:
        env.update(env_extra)
    pending = list(range(n_shards))
    running = {}
    results = {}
    try:
        while pending or running:
            while pending and len(running) < max_parallel:
                i = pending.pop(0)
                out = os.path.join(wd, f"shard{i}.json")
                log = open(os.path.join(wd, f"shard{i}.log"), "w")
                p = subprocess.Popen([sys.executable, "-m", "verif.worker", module, run.tier, str(i), str(n_shards), out, *extra_args],
                                     cwd=ROOT, env=env, stdout=log, stderr=subprocess.STDOUT)
                running[i] = (p, out, log, time.time())
            time.sleep(0.05)
            for i, (p, out, log, t0) in list(running.items()):
                rc = p.poll()
                if rc is None:
                    if time.time() - t0 > timeout_s:
                        p.kill()
                        p.wait()
                        rc = "timeout"
                    else:
                        continue
                log.close()
                del running[i]
                results[i] = (rc, out, log.name, read_current(p.pid))
        for i in sorted(results):
            rc, out, logname, current = results[i]
            tail = ""
            try:
                tail = open(logname).read()[-1500:]
            except OSError:
                pass
            if rc == "timeout":
                run.inconclusive_because(f"shard {i} of {module} hit the {timeout_s}s wall-clock watchdog")
                continue
            if rc != 0 or not os.path.exists(out):
                if isinstance(rc, int) and rc < 0:
                    run.violation("process-died", {"shard": i, "signal": -rc, "was_doing": current, "log_tail": tail})
                else:
                    run.inconclusive_because(f"shard {i} of {module} exited {rc}: {tail[-300:]}")
                continue
            run.merge(json.load(open(out)))
    finally:
        rm_tree(wd)
