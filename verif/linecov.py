"""Anchor-line coverage probe (DESIGN.md sec. 2, "Evidence"): which statement lines of tensora's
own source the workload of a check actually executed.

A sys.monitoring LINE callback restricted to code objects whose file lives under the tensora
package records (file, line) once and returns DISABLE, so the cost is one callback per distinct
line per code object.  This is evidence ("the growth branch ran"), never a verdict - except that a
check whose anchored files were not reached at all is inconclusive."""

from __future__ import annotations

import os
import sys

TOOL = 5  # sys.monitoring tool id (0-5); 3 is the yield injector of C14, 4 the call budget
_hits: dict[str, set] = {}
_root = None
_on = False


def tensora_root():
    global _root
    if _root is None:
        import tensora

        _root = os.path.dirname(os.path.abspath(tensora.__file__))
    return _root


def start():
    """Idempotent.  Returns False when sys.monitoring is unavailable (then coverage is absent)."""
    global _on
    if _on:
        return True
    mon = getattr(sys, "monitoring", None)
    if mon is None:
        return False
    root = tensora_root() + os.sep
    try:
        mon.use_tool_id(TOOL, "verif-linecov")
    except ValueError:
        return False

    def on_line(code, line):
        fn = code.co_filename
        if fn.startswith(root):
            _hits.setdefault(fn[len(root):], set()).add(line)
        return mon.DISABLE

    mon.register_callback(TOOL, mon.events.LINE, on_line)
    mon.set_events(TOOL, mon.events.LINE)
    _on = True
    return True


def start_from_env():
    """Called by every process entry of the framework (shard workers, history children): when the
    parent check exported VERIF_LINECOV_DIR, record lines and dump them there at exit."""
    d = os.environ.get("VERIF_LINECOV_DIR")
    if not d or not start():
        return False
    import atexit
    import json

    def dump():
        try:
            with open(os.path.join(d, f"{os.getpid()}.json"), "w") as f:
                json.dump(snapshot(), f)
        except OSError:
            pass

    atexit.register(dump)
    return True


def collect(d):
    """Union of the dumps of all processes that wrote into directory d."""
    import json

    out: dict[str, set] = {}
    n = 0
    try:
        names = sorted(os.listdir(d))
    except OSError:
        names = []
    for name in names:
        try:
            with open(os.path.join(d, name)) as f:
                part = json.load(f)
        except (OSError, ValueError):
            continue
        n += 1
        for fn, lines in part.items():
            out.setdefault(fn, set()).update(lines)
    return out, n


def snapshot():
    return {f: sorted(ls) for f, ls in _hits.items()}


def executable_lines(path):
    """Statement-start lines inside function bodies of a source file (module- and class-level
    statements run at import time, before the probe starts, and are not counted; docstrings carry
    no instruction)."""
    import ast

    try:
        tree = ast.parse(open(path).read())
    except (OSError, SyntaxError):
        return set()
    out = set()

    def visit(node, in_function):
        for child in ast.iter_child_nodes(node):
            fn = isinstance(child, (ast.FunctionDef, ast.AsyncFunctionDef))
            if in_function and isinstance(child, ast.stmt):
                is_doc = (isinstance(child, ast.Expr) and isinstance(child.value, ast.Constant)
                          and isinstance(child.value.value, str))
                if not is_doc and not isinstance(child, (ast.Pass, ast.Global, ast.Nonlocal)):
                    # a multi-line `if (` fires its LINE event on the first line of the condition
                    out.add(child.test.lineno if isinstance(child, (ast.If, ast.While)) else child.lineno)
            if isinstance(child, ast.ClassDef):
                visit(child, False)
            else:
                visit(child, in_function or fn)

    visit(tree, False)
    return out


def report(hits: dict, anchor_files: list[str], max_unreached=40):
    """-> evidence dict: per anchored file lines reached / executable lines inside functions."""
    root = tensora_root()
    per = {}
    reached_total = 0
    exec_total = 0
    for a in anchor_files:
        rel = a.split("src/tensora/", 1)[-1]
        path = os.path.join(root, rel)
        ex = executable_lines(path)
        got = set(hits.get(rel, ())) & ex if ex else set(hits.get(rel, ()))
        missing = sorted(ex - got)
        per[rel] = {"reached": len(got), "executable": len(ex), "unreached_lines": missing[:max_unreached]}
        reached_total += len(got)
        exec_total += len(ex)
    return {"files": per, "reached": reached_total, "executable": exec_total,
            "note": "statement lines inside function bodies of the property's anchored files executed by this "
                    "check's workload (sys.monitoring LINE probe, DISABLE after first hit); lines run only at "
                    "import time are not counted"}
