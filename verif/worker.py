"""Subprocess entry: python -m verif.worker <module> <tier> <shard> <n_shards> <out.json> [args...]

Imports verif.checks.<module> and calls its shard(rec, tier, shard, n_shards, *args); the recorder
is dumped as JSON for the parent to merge."""

import faulthandler
import importlib
import json
import sys

from .common import Run


def main():
    faulthandler.enable()
    from . import linecov

    linecov.start_from_env()
    module, tier, shard, n_shards, out = sys.argv[1:6]
    args = sys.argv[6:]
    mod = importlib.import_module(f"verif.checks.{module}")
    rec = Run(mod.PID, tier, mod.LEVEL, "")
    mod.shard(rec, tier, int(shard), int(n_shards), *args)
    with open(out, "w") as f:
        json.dump(rec.to_dict(), f)


if __name__ == "__main__":
    main()
