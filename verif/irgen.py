"""Seeded generator of random *well-typed* IR programs (C06 printer-level trees, C07 trees).

Every program has the same shape so that all three executors (abstract machine, emitted C, LLVM
JIT) can run it:

    int32_t prog(taco_tensor_t* out, taco_tensor_t* in) {
      int32_t* ia = in->indices[0][1];  double* fa = in->vals;      // N ints, N doubles
      int32_t* oi = malloc(M ints);     double* of = malloc(M doubles);
      oi[k] = 0; of[k] = 0 for all k                                 // defined contents
      int32_t i0..i3 = ia[..]; double f0..f2 = fa[..]; bool b0,b1 = comparisons
      <random statements>
      out->indices[0][0] = op (= {0, M}); out->indices[0][1] = oi; out->vals = of;
      return <int expression>;
    }
`in` is a 1-level compressed tensor with N stored entries; `out` is 1-level compressed.
"""

from __future__ import annotations

import random

from tensora.ir import ast as A
from tensora.ir import types as T

N = 4
M = 4
V = A.Variable
IL = A.IntegerLiteral
FL = A.FloatLiteral
BL = A.BooleanLiteral

INT_VARS = ["i0", "i1", "i2", "i3"]
FLOAT_VARS = ["f0", "f1", "f2"]
BOOL_VARS = ["b0", "b1"]


class Gen:
    def __init__(self, rng: random.Random, allow_unsafe=0.03, float_literals=(0.0, 1.0, 0.5, 1.5, 2.5), mixed=0.25, early_return=0.0):
        self.rng = rng
        self.allow_unsafe = allow_unsafe
        self.float_literals = float_literals
        self.mixed = mixed
        self.early_return = early_return
        self.fresh = 0
        self.extra_int = []  # loop counters / temporaries in scope
        self.extra_float = []

    # ---------------------------------------------------------------- expressions
    def int_expr(self, d):
        r = self.rng
        if d <= 0 or r.random() < 0.3:
            c = r.random()
            if c < 0.45:
                return IL(r.choice([0, 0, 1, 1, 2, 3]))
            if c < 0.9:
                return V(r.choice(INT_VARS + self.extra_int))
            return A.ArrayIndex(V("ia"), self.index_expr(N, d))
        c = r.random()
        if c < 0.55:
            op = r.choice([A.Add, A.Subtract, A.Multiply])
            return op(self.int_expr(d - 1), self.int_expr(d - 1))
        if c < 0.7:
            op = r.choice([A.Min, A.Max])
            return op(self.int_expr(d - 1), self.int_expr(d - 1))
        if c < 0.85:
            return A.BooleanToInteger(self.bool_expr(d - 1))
        if c < 0.93:
            return A.ArrayIndex(V(r.choice(["ia", "oi"])), self.index_expr(N, d - 1))
        e = self.int_expr(d - 1)
        return r.choice([A.Add(e, IL(0)), A.Multiply(IL(1), e), A.Subtract(e, IL(0)), A.Multiply(e, IL(0))])

    def float_expr(self, d):
        r = self.rng
        if d <= 0 or r.random() < 0.3:
            c = r.random()
            if c < 0.4:
                return FL(r.choice(self.float_literals))
            if c < 0.9:
                return V(r.choice(FLOAT_VARS + self.extra_float))
            return A.ArrayIndex(V("fa"), self.index_expr(N, d))
        c = r.random()
        op = r.choice([A.Add, A.Subtract, A.Multiply])
        if c < self.mixed:
            # mixed int/float promotion at either position
            if r.random() < 0.5:
                return op(self.int_expr(d - 1), self.float_expr(d - 1))
            return op(self.float_expr(d - 1), self.int_expr(d - 1))
        if c < 0.85:
            return op(self.float_expr(d - 1), self.float_expr(d - 1))
        if c < 0.93:
            return A.ArrayIndex(V(r.choice(["fa", "of"])), self.index_expr(N, d - 1))
        e = self.float_expr(d - 1)
        return r.choice([A.Add(e, FL(0.0)), A.Multiply(FL(1.0), e), A.Subtract(e, FL(0.0)), A.Multiply(e, FL(0.0)),
                         A.Add(IL(0), e), A.Multiply(e, IL(1))])

    def bool_expr(self, d):
        r = self.rng
        if d <= 0 or r.random() < 0.25:
            c = r.random()
            if c < 0.4:
                return BL(r.random() < 0.5)
            return V(r.choice(BOOL_VARS))
        c = r.random()
        if c < 0.55:
            op = r.choice([A.Equal, A.NotEqual, A.LessThan, A.GreaterThan, A.LessThanOrEqual, A.GreaterThanOrEqual])
            l = self.int_expr(d - 1)
            rr = l if r.random() < 0.2 else self.int_expr(d - 1)
            return op(l, rr)
        if c < 0.9:
            op = r.choice([A.And, A.Or])
            return op(self.bool_expr(d - 1), self.bool_expr(d - 1))
        # short-circuit guards: the right operand is out of bounds when the left operand decides
        i = V(r.choice(INT_VARS))
        if r.random() < 0.5:
            return A.And(A.And(A.LessThan(i, IL(N)), A.GreaterThanOrEqual(i, IL(0))),
                         A.Equal(A.ArrayIndex(V("ia"), i), self.int_expr(d - 1)))
        return A.Or(A.Or(A.GreaterThanOrEqual(i, IL(N)), A.LessThan(i, IL(0))),
                    A.Equal(A.ArrayIndex(V("ia"), i), self.int_expr(d - 1)))

    def index_expr(self, length, d):
        r = self.rng
        c = r.random()
        if c < 0.6:
            return IL(r.randrange(length))
        if c < 1.0 - self.allow_unsafe:
            return A.Min(A.Max(self.int_expr(min(d, 1)), IL(0)), IL(length - 1))
        return self.int_expr(min(d, 1))

    # ---------------------------------------------------------------- statements
    def name(self, prefix):
        self.fresh += 1
        return f"{prefix}{self.fresh}"

    def assign(self, d):
        r = self.rng
        c = r.random()
        if c < 0.25:
            v = V(r.choice(INT_VARS))
            return A.Assignment(v, v if r.random() < 0.15 else self.int_expr(d))
        if c < 0.45:
            v = V(r.choice(FLOAT_VARS))
            e = v if r.random() < 0.15 else (self.float_expr(d) if r.random() < 0.8 else self.int_expr(d))
            return A.Assignment(v, e)
        if c < 0.55:
            v = V(r.choice(BOOL_VARS))
            return A.Assignment(v, self.bool_expr(d))
        if c < 0.75:
            t = A.ArrayIndex(V("oi"), self.index_expr(M, 1))
            if r.random() < 0.15:
                # self-assignment whose index expressions may or may not be identical
                return A.Assignment(t, A.ArrayIndex(V("oi"), t.index if r.random() < 0.6 else self.index_expr(M, 1)))
            e = self.int_expr(d)
            if r.random() < 0.3:
                e = r.choice([A.Add, A.Subtract, A.Multiply])(t, e)  # compound-assignment sugar in C
            return A.Assignment(t, e)
        t = A.ArrayIndex(V("of"), self.index_expr(M, 1))
        e = self.float_expr(d) if r.random() < 0.8 else self.int_expr(d)
        if r.random() < 0.3:
            e = r.choice([A.Add, A.Subtract, A.Multiply])(t, e)
        elif r.random() < 0.1:
            e = r.choice([A.Add, A.Multiply])(e, t)  # x = e + x must NOT become x += e
        return A.Assignment(t, e)

    def stmt(self, d, depth_e=3):
        r = self.rng
        if self.early_return and r.random() < self.early_return:
            # a return that is not the last statement of the function (inside loops/branches too)
            return A.Return(self.int_expr(1))
        c = r.random()
        if d <= 0 or c < 0.45:
            return self.assign(depth_e)
        if c < 0.6:
            return A.Block([self.stmt(d - 1, depth_e) for _ in range(r.randint(0, 3))], r.choice([None, None, "block"]))
        if c < 0.8:
            cond = self.bool_expr(2)
            t = A.Block([self.stmt(d - 1, depth_e) for _ in range(r.randint(0, 2))])
            f = A.Block([self.stmt(d - 1, depth_e) for _ in range(r.randint(0, 2))]) if r.random() < 0.5 else A.Block([])
            return A.Branch(cond, t, f)
        if c < 0.93:
            # terminating counter loop
            k = self.name("c")
            n = r.randint(0, 3)
            self.extra_int.append(k)
            body = [self.stmt(d - 1, depth_e) for _ in range(r.randint(0, 2))]
            self.extra_int.remove(k)
            body.append(A.Assignment(V(k), A.Add(V(k), IL(1))))
            cond = A.LessThan(V(k), IL(n))
            if r.random() < 0.25:
                cond = A.And(cond, self.bool_expr(1))
            return A.Block([A.DeclarationAssignment(A.Declaration(V(k), T.integer), IL(0)), A.Loop(cond, A.Block(body))])
        if c < 0.97:
            # arbitrary-condition loop (may not terminate: such programs are discarded by the budget)
            return A.Loop(self.bool_expr(2), A.Block([self.stmt(d - 1, depth_e) for _ in range(r.randint(0, 2))]))
        # scoped temporary
        k = self.name("t")
        if r.random() < 0.5:
            decl = A.DeclarationAssignment(A.Declaration(V(k), T.integer), self.int_expr(2))
            self.extra_int.append(k)
            use = A.Assignment(A.ArrayIndex(V("oi"), IL(r.randrange(M))), self.int_expr(2))
            self.extra_int.remove(k)
        else:
            decl = A.DeclarationAssignment(A.Declaration(V(k), T.float), self.float_expr(2))
            self.extra_float.append(k)
            use = A.Assignment(A.ArrayIndex(V("of"), IL(r.randrange(M))), self.float_expr(2))
            self.extra_float.remove(k)
        return A.Branch(BL(True) if r.random() < 0.3 else self.bool_expr(1), A.Block([decl, use]), A.Block([]))


def prologue():
    s = []
    lvl = A.ArrayIndex(A.AttributeAccess(V("in"), "indices"), IL(0))
    s.append(A.DeclarationAssignment(A.Declaration(V("ia"), T.Pointer(T.integer)), A.ArrayIndex(lvl, IL(1))))
    s.append(A.DeclarationAssignment(A.Declaration(V("fa"), T.Pointer(T.float)), A.AttributeAccess(V("in"), "vals")))
    s.append(A.DeclarationAssignment(A.Declaration(V("op"), T.Pointer(T.integer)), A.ArrayAllocate(T.integer, IL(2))))
    s.append(A.DeclarationAssignment(A.Declaration(V("oi"), T.Pointer(T.integer)), A.ArrayAllocate(T.integer, IL(M))))
    s.append(A.DeclarationAssignment(A.Declaration(V("of"), T.Pointer(T.float)), A.ArrayAllocate(T.float, IL(M))))
    s.append(A.Assignment(A.ArrayIndex(V("op"), IL(0)), IL(0)))
    s.append(A.Assignment(A.ArrayIndex(V("op"), IL(1)), IL(M)))
    for k in range(M):
        s.append(A.Assignment(A.ArrayIndex(V("oi"), IL(k)), IL(k)))  # increasing: a valid crd segment
        s.append(A.Assignment(A.ArrayIndex(V("of"), IL(k)), FL(0.0)))
    for k, n in enumerate(INT_VARS):
        s.append(A.DeclarationAssignment(A.Declaration(V(n), T.integer), A.ArrayIndex(V("ia"), IL(k % N))))
    for k, n in enumerate(FLOAT_VARS):
        s.append(A.DeclarationAssignment(A.Declaration(V(n), T.float), A.ArrayIndex(V("fa"), IL(k % N))))
    s.append(A.DeclarationAssignment(A.Declaration(V("b0"), T.boolean), A.LessThan(V("i0"), V("i1"))))
    s.append(A.DeclarationAssignment(A.Declaration(V("b1"), T.boolean), A.Equal(V("i2"), V("i3"))))
    return s


def epilogue(ret):
    lvl = A.ArrayIndex(A.AttributeAccess(V("out"), "indices"), IL(0))
    return [
        A.Assignment(A.ArrayIndex(lvl, IL(0)), V("op")),
        A.Assignment(A.ArrayIndex(lvl, IL(1)), V("oi")),
        A.Assignment(A.AttributeAccess(V("out"), "vals"), V("of")),
        A.Return(ret),
    ]


def wrap(body_statements, ret, name="prog"):
    params = [A.Declaration(V("out"), T.Pointer(T.tensor)), A.Declaration(V("in"), T.Pointer(T.tensor))]
    return A.FunctionDefinition(V(name), params, T.integer, A.Block(prologue() + [A.Block(body_statements, "body")] + epilogue(ret)))


def statement_program(rng, name="prog", **kw):
    g = Gen(rng, **kw)
    body = [g.stmt(rng.randint(1, 3)) for _ in range(rng.randint(1, 5))]
    return wrap(body, g.int_expr(2), name)


def expression_program(rng, name="prog", **kw):
    """Expression-printer workload: M float and M int expression trees of depth <= 4 stored to the
    outputs, the return value is one more int tree."""
    g = Gen(rng, **kw)
    body = []
    for k in range(M):
        body.append(A.Assignment(A.ArrayIndex(V("of"), IL(k)), g.float_expr(rng.randint(1, 4))))
    for k in range(M):
        if rng.random() < 0.5:
            body.append(A.Assignment(A.ArrayIndex(V("oi"), IL(k)), g.int_expr(rng.randint(1, 4))))
        else:
            body.append(A.Assignment(A.ArrayIndex(V("oi"), IL(k)), A.BooleanToInteger(g.bool_expr(rng.randint(1, 4)))))
    return wrap(body, g.int_expr(3), name)


def environment(rng, int_values=(0, 1, 2, 3, -1, 5), float_values=(0.0, 1.0, -1.0, 0.5, 2.0, -2.5, 3.0)):
    """(ia list of N ints, fa list of N floats)"""
    return [rng.choice(int_values) for _ in range(N)], [rng.choice(float_values) for _ in range(N)]
