"""Shared observation step for C01/C02/C03/C05: run one case through an executor with every
monitor attached and return what was observed.  The per-property oracles live in the checks."""

from __future__ import annotations

from dataclasses import dataclass, field
from fractions import Fraction

from . import engine, irvm, refsem, taco


@dataclass
class Obs:
    case: object
    executor: str
    kind: str = "evaluate"
    status: str = ""  # refused | internal | unsupported | ran
    reason: str = ""
    problem: object = None
    module: object = None
    violation: object = None  # IRViolation (memory/int/scope/budget/...)
    malformed: object = None  # taco.Malformed
    raw: tuple = None
    decoded: dict = None
    counters: object = None
    extra: dict = field(default_factory=dict)


def observe_irvm(case, kinds=("evaluate",), record_access=False) -> Obs:
    o = Obs(case, "irvm", kinds[-1])
    try:
        o.problem = engine.make_problem(case)
        engine.request_prelude(case)
        o.module = engine.generate_module(o.problem, kinds, case.capacity)
    except engine.Refused as r:
        o.status, o.reason = "refused", str(r)
        return o
    except engine.InternalError as e:
        o.status, o.reason = "internal", str(e)
        return o
    fn = o.module.definitions[-1]
    try:
        res, state = engine.run_function(case, o.problem, fn, record_access=record_access)
        o.counters = res.counters
        o.extra["machine"] = res.machine
        o.extra["state"] = state
        o.status = "ran"
    except irvm.Unsupported as u:
        o.status, o.reason = "unsupported", str(u)
        return o
    except irvm.IRViolation as v:
        o.status = "ran"
        o.violation = v
        return o
    try:
        o.raw, o.decoded = engine.decode_output(res.out)
    except taco.Malformed as m:
        o.malformed = m
    except irvm.IRViolation as v:
        o.violation = v
    return o


def observe_jit(case, method_cache=None) -> Obs:
    """The evaluate() path: TensorMethod (LLVM), inputs through taco_structure_to_cffi, result read
    raw.  `method_cache` maps (assignment, formats, capacity) -> TensorMethod | exception."""
    o = Obs(case, "jit")
    key = (case.assignment, tuple(case.formats.items()), case.capacity)
    try:
        o.problem = engine.make_problem(case)
        if method_cache is not None and key in method_cache:
            m = method_cache[key]
            if isinstance(m, Exception):
                raise m
        else:
            try:
                m = engine.jit_method(o.problem, case.capacity)
            except (engine.Refused, engine.InternalError) as exc:
                if method_cache is not None:
                    method_cache[key] = exc
                raise
            if method_cache is not None:
                method_cache[key] = m
    except engine.Refused as r:
        o.status, o.reason = "refused", str(r)
        return o
    except engine.InternalError as e:
        o.status, o.reason = "internal", str(e)
        return o
    from .common import note_current

    note_current({"executor": "jit", "case": case.describe()})
    ins = engine.jit_inputs(case)
    try:
        result = m(**ins)
    except Exception as exc:  # noqa: BLE001
        o.status, o.reason = "internal", f"call raised {type(exc).__name__}: {exc}"
        return o
    o.status = "ran"
    o.extra["tensor"] = result
    try:
        raw = taco.read_raw(result)
        o.raw = raw
        o.decoded = taco.validate(*raw)
    except taco.Malformed as mm:
        o.malformed = mm
    return o


# --------------------------------------------------------------------------- oracles


def c01_judge(o: Obs):
    """-> None if the observation agrees with the mathematical meaning, else
    (class, witness, known_key|None)."""
    case = o.case
    dims_ref, ref = engine.reference(case, o.problem)
    dims_got = tuple(o.raw[0])
    if dims_got != tuple(dims_ref):
        return ("dimensions", {"got": dims_got, "want": dims_ref}, None)
    diff = engine.compare_values(o.decoded, ref)
    if diff is None:
        return None
    c, got, want = diff
    witness = {"coordinate": list(c), "got": got, "want": str(want)}
    # two-step judgement for the ambiguous product-of-sums class (DESIGN sec. 5, K1b)
    from tensora.desugar import desugar_assignment

    des = desugar_assignment(o.problem.assignment)
    if refsem.contraction_wraps_term_lacking_index(des):
        _, placed = refsem.placement_evaluate(des, case.inputs, case.sizes)
        d2 = engine.compare_values(o.decoded, placed)
        if d2 is None:
            return ("value", witness, "contraction-around-product-of-sums")
        witness["placement_semantics_also_differs_at"] = list(d2[0])
    return ("value", witness, None)


def c03_judge(o: Obs):
    """Phantom coordinates: per compressed output level, stored level-order prefixes must be
    prefixes of the structural support.  -> None or (class, witness)."""
    case = o.case
    dims, modes, ordering, indices, vals = o.raw
    if "s" not in modes:
        return None
    stored = engine.stored_full(case)
    sup = refsem.support(o.problem.assignment, stored, case.sizes)
    order = len(dims)
    sup_level = [tuple(c[ordering[l]] for l in range(order)) for c in sup]
    got = taco.stored_prefix_sets(dims, modes, ordering, indices)
    for l, prefixes in sorted(got.items()):
        allowed = {p[: l + 1] for p in sup_level}
        extra = sorted(prefixes - allowed)
        if extra:
            return ("phantom", {"level": l, "phantom_level_prefixes": [list(x) for x in extra[:5]],
                                "support_size": len(sup)})
    return None


# --------------------------------------------------------------------------- all three kernel kinds


@dataclass
class KindsObs:
    case: object
    status: str = ""  # refused | internal | unsupported | ran
    reason: str = ""
    problem: object = None
    module: object = None
    evaluate: Obs = None
    assemble: Obs = None
    compute: Obs = None
    events_compute: list = None


def _run_kernel(o: Obs, case, problem, fn, state=None, record_access=False):
    try:
        if state is None:
            res, state = engine.run_function(case, problem, fn, record_access=record_access)
        else:
            heap, structs, out, ins = state
            res, state = engine.run_function(case, problem, fn, heap, structs, out, ins, record_access=record_access)
        o.counters = res.counters
        o.extra["machine"] = res.machine
        o.extra["state"] = state
        o.status = "ran"
    except irvm.Unsupported as u:
        o.status, o.reason = "unsupported", str(u)
        return None
    except irvm.IRViolation as v:
        o.status = "ran"
        o.violation = v
        return None
    try:
        o.raw, o.decoded = engine.decode_output(res.out)
    except taco.Malformed as m:
        o.malformed = m
    except irvm.IRViolation as v:
        o.violation = v
    return state


def observe_kinds(case, one_request=True) -> KindsObs:
    """evaluate on one heap; assemble then compute on another.  With one_request the three kinds
    are requested in a single generate_module_tensora call (as the CLI does), else one by one."""
    k = KindsObs(case)
    try:
        k.problem = engine.make_problem(case)
        engine.request_prelude(case)
        if one_request:
            k.module = engine.generate_module(k.problem, ("assemble", "compute", "evaluate"), case.capacity)
            fns = {f.name.name: f for f in k.module.definitions}
        else:
            fns = {}
            for kind in ("assemble", "compute", "evaluate"):
                m = engine.generate_module(k.problem, (kind,), case.capacity)
                fns[kind] = m.definitions[0]
    except engine.Refused as r:
        k.status, k.reason = "refused", str(r)
        return k
    except engine.InternalError as e:
        k.status, k.reason = "internal", str(e)
        return k
    k.status = "ran"
    k.evaluate = Obs(case, "irvm", "evaluate", problem=k.problem)
    _run_kernel(k.evaluate, case, k.problem, fns["evaluate"])
    k.assemble = Obs(case, "irvm", "assemble", problem=k.problem)
    # the assemble kernel leaves vals unwritten: decode with structure-only validation
    state = None
    try:
        res, state = engine.run_function(case, k.problem, fns["assemble"])
        k.assemble.counters = res.counters
        k.assemble.extra["machine"] = res.machine
        k.assemble.status = "ran"
        try:
            dims, modes, ordering, indices, vals = irvm.read_struct(res.out)
            k.assemble.raw = (dims, modes, ordering, indices, vals)
            # structure must be valid; values are not yet computed (cells may be uninitialised)
            blank = None if vals is None else [0.0] * len(vals)
            taco.validate(dims, modes, ordering, indices, blank, uninit=irvm.UNINIT, vals_slack=None)
        except taco.Malformed as m:
            k.assemble.malformed = m
        except irvm.IRViolation as v:
            k.assemble.violation = v
    except irvm.Unsupported as u:
        k.assemble.status, k.assemble.reason = "unsupported", str(u)
    except irvm.IRViolation as v:
        k.assemble.status = "ran"
        k.assemble.violation = v
    if state is not None and k.assemble.violation is None and k.assemble.malformed is None:
        k.compute = Obs(case, "irvm", "compute", problem=k.problem)
        _run_kernel(k.compute, case, k.problem, fns["compute"], state)
        if "machine" in k.compute.extra:
            k.events_compute = k.compute.extra["machine"].events
    return k
