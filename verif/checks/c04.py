"""C04 - assemble followed by compute is equivalent to evaluate.

History on the IR abstract machine: evaluate(out', ins) on one heap; assemble(out, ins) on another,
snapshot; compute(out, ins); then k re-valuations ins' (same structure, fresh values) with
compute(out, ins') each compared with a fresh evaluate(out'', ins').  Observed: allocation events,
every store during compute, every pos/crd cell and array pointer, initialisation bits, values.
"""

from __future__ import annotations

import json
import dataclasses as _dc
import random

from .. import controls, engine, gen, irvm, sweep, taco
from ..common import Run, run_shards

PID = "C04"
LEVEL = "exploration"
RULE = ("histories = assemble; compute; (re-value inputs; compute) x 3 vs a fresh evaluate for each valuation, for curated + "
        "random-grammar problems x random formats x inputs x capacities, kernels requested in one call and one by one; "
        "non-trivial = the output stores >= 1 value and some input stores an entry; distinct by case")

PLAN = {
    "quick": dict(shards=12, fmt=6, inp=1, rnd=900, draws=1, revals=3),
    "thorough": dict(shards=16, fmt=50, inp=2, rnd=16000, draws=3, revals=3),
}


def structure_of(raw):
    dims, modes, ordering, indices, vals = raw
    desc = []
    n = 1
    for l, m in enumerate(modes):
        if m == "d":
            n *= dims[ordering[l]]
            desc.append(None)
        else:
            pos, crd = indices[l]
            pos = list(pos[: n + 1])
            nn = pos[-1] if pos and pos[-1] is not irvm.UNINIT else 0
            desc.append((pos, list((crd or [])[:nn])))
            n = nn
    return tuple(dims), tuple(modes), tuple(ordering), desc, n


def out_pointers(out):
    """identity + full contents of every index array and the identity of the vals block"""
    top = out.fields["indices"].block.cells
    ptrs = []
    for lp in top:
        for c in lp.block.cells:
            ptrs.append((id(c.block), c.offset, list(c.block.cells) if c.block is not None else None))
    v = out.fields["vals"]
    return ptrs, (id(v.block), v.offset)


def revalue(rng, case):
    new = {}
    for n, m in case.inputs.items():
        new[n] = {c: (0.0 if rng.random() < 0.1 else rng.choice(gen.DYADIC)) for c in m}
    return new


def poke_inputs(case, ins_structs, new_inputs):
    dims = engine.input_dims(case)
    for s in ins_structs:
        modes, ordering = taco.parse_fmt(case.formats[s.name])
        ind, vals = taco.build(new_inputs[s.name], dims[s.name], modes, ordering)
        blk = s.fields["vals"].block
        assert len(blk.cells) == len(vals)
        blk.cells[:] = vals


def history(rec, rng, case, one_request, revals):
    try:
        problem = engine.make_problem(case)
        if one_request:
            module = engine.generate_module(problem, ("assemble", "compute", "evaluate"), case.capacity)
            fns = {f.name.name: f for f in module.definitions}
        else:
            fns = {k: engine.generate_module(problem, (k,), case.capacity).definitions[0] for k in ("assemble", "compute", "evaluate")}
    except engine.Refused:
        rec.count("refused")
        return
    except engine.InternalError:
        rec.count("generation_error_not_judged_here")
        return
    rec.evaluated()
    rec.count("histories")
    desc = case.describe()

    def viol(cls, **kw):
        rec.violation(cls, {"case": desc, "one_request": one_request, **kw})

    try:
        # evaluate
        resE, _ = engine.run_function(case, problem, fns["evaluate"])
        rawE, decE = engine.decode_output(resE.out)
        # assemble
        resA, state = engine.run_function(case, problem, fns["assemble"])
        heap, structs, out, ins = state
        dims, modes, ordering, indices, vals = irvm.read_struct(out)
        blank = None if vals is None else [0.0] * len(vals)
        taco.validate(dims, modes, ordering, indices, blank, uninit=irvm.UNINIT, vals_slack=None)
        sA = structure_of((dims, modes, ordering, indices, vals))
        sE = structure_of(rawE)
        if sA != sE:
            viol("assemble-structure-differs-from-evaluate", assemble=repr(sA)[:300], evaluate=repr(sE)[:300])
            return
        rec.count("assemble_structure_equal_evaluate")
        ptr0, vals0 = out_pointers(out)
        vals_label = out.fields["vals"].block.label if out.fields["vals"].block is not None else None
        cur_inputs = case.inputs
        wantE = decE
        for step in range(revals + 1):
            if step > 0:
                cur_inputs = revalue(rng, case)
                poke_inputs(case, ins, cur_inputs)
                case2 = _dc.replace(case, inputs=cur_inputs)
                resE2, _ = engine.run_function(case2, problem, fns["evaluate"])
                rawE2, wantE = engine.decode_output(resE2.out)
                if structure_of(rawE2) != sE:
                    rec.inconclusive_because("re-valued inputs changed the structure of evaluate's output (harness defect)")
                    return
            resC, _ = engine.run_function(case, problem, fns["compute"], heap, structs, out, ins)
            rec.count("compute_runs")
            ev = resC.machine.events
            allocs = [e for e in ev if e[0] in ("malloc", "realloc")]
            if allocs:
                viol("compute-allocates", events=repr(allocs[:4]), step=step)
                return
            bad_stores = [e for e in ev if e[0] == "store" and e[1] != vals_label]
            if bad_stores:
                viol("compute-writes-outside-vals", events=repr(bad_stores[:4]), step=step)
                return
            if any(e[0] == "setfield" for e in ev):
                # compute may re-assign out->vals only to the very same pointer
                pass
            ptr1, vals1 = out_pointers(out)
            if ptr1 != ptr0 or vals1 != vals0:
                viol("compute-changed-structure-or-pointers", step=step)
                return
            rawC, decC = engine.decode_output(out)
            for c, v in wantE.items():
                if decC.get(c) != v:
                    viol("compute-values-differ-from-evaluate", coordinate=list(c), compute=decC.get(c), evaluate=v, step=step,
                         revalued_inputs={n: {str(list(k)): x for k, x in m.items()} for n, m in cur_inputs.items()})
                    return
            if set(decC) != set(wantE):
                viol("compute-stored-set-differs", step=step)
                return
            rec.count("compute_equal_evaluate")
        if decE and any(len(v) for v in case.inputs.values()):
            rec.nontrivial(hash(case.key()))
        if rec.counters.get("histories", 0) <= 1:
            rec.sample({"case": desc, "structure": repr(sE)[:300], "compute_events": len(ev)})
    except irvm.Unsupported as u:
        rec.inconclusive_because(f"IR abstract machine met an unknown node: {u}")
    except irvm.IRViolation as v:
        viol(f"kernel-violation:{v.kind}", detail=v.detail)
    except taco.Malformed as m:
        viol(f"malformed:{m.rule}", detail=m.detail)


def shard(rec, tier, index, n_shards):
    plan = PLAN[tier]
    rng = random.Random(f"C04-{rec.seed}-{index}")
    n = 0
    shapes = list(gen.CURATED) + list(gen.BROADCAST)
    for text in shapes[index::n_shards]:
        target, tree = gen.parse(text)
        orders = gen.tensor_orders(target, tree)
        for k_, formats in enumerate(gen.format_plan(rng, orders, plan["fmt"])):
            for _ in range(plan["inp"] * (4 if k_ == 0 else 1)):  # the all-compressed assignment gets more inputs
                history(rec, rng, engine.build_case(rng, target, tree, formats, origin="curated"), n % 2 == 0, plan["revals"])
                n += 1
    for case in engine.random_cases(rng, plan["rnd"] // n_shards, plan["draws"]):
        history(rec, rng, case, n % 2 == 0, plan["revals"])
        n += 1


def main(tier):
    run = Run(PID, tier, LEVEL, RULE)
    bad = controls.all_fired(controls.irvm_controls()) + controls.all_fired(controls.validator_controls())
    for b in bad:
        run.inconclusive_because(f"positive control did not fire: {b}")
    run.counters["positive_controls_fired"] = 18 - len(bad)
    plan = PLAN[tier]
    run_shards(run, "c04", plan["shards"], timeout_s=3600 if tier == "quick" else 7200)
    from . import c04_native

    c04_native.run_native(run, tier)
    if run.counters.get("compute_equal_evaluate", 0) < 1000:
        run.inconclusive_because("too few assemble/compute histories completed")
    run.assumptions += [
        "values are compared exactly: compute and evaluate perform the same floating-point operations in the same order on dyadic inputs",
        "that one iteration graph is reused for all kinds is a mechanism, not checked; both request styles are judged by behaviour",
    ]
    return run.finish()


def replay(path):
    d = json.load(open(path))
    w = d["witness"]
    case = engine.case_from_description(w["case"])
    rec = Run(PID, "quick", LEVEL, RULE)
    history(rec, random.Random(0), case, w.get("one_request", True), 3)
    print("replay:", json.dumps(rec.violations)[:800])
    if rec.violations:
        print(f"VIOLATION property={PID} replay={path}")
        return 1
    return 0
