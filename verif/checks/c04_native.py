"""Native leg of C04: the emitted C of the three kinds compiled with gcc ASan+UBSan; the history
assemble; compute; (re-value) compute is compared with evaluate on the same valuations."""

from __future__ import annotations

import random
import dataclasses as _dc
from concurrent.futures import ThreadPoolExecutor

from .. import cdrv, engine, gen, native, taco
from ..common import rm_tree, work_dir
from .c05_native import pick_cases


def run_native(run, tier):
    n = 48 if tier == "quick" else 1200
    rng = random.Random(f"C04-native-{run.seed}")
    wd = work_dir("c04n")
    try:
        from tensora.codegen import ir_to_c

        picked = pick_cases(rng, n)
        items = []
        for case, k in picked:
            code = ir_to_c(k.module)
            dims = engine.input_dims(case)
            new_inputs = {name: {c: rng.choice(gen.DYADIC) for c in m} for name, m in case.inputs.items()}
            reval = {}
            for s in native.tensor_specs(case, k.problem):
                if s.role == "input":
                    modes, ordering = taco.parse_fmt(case.formats[s.name])
                    reval[s.name] = taco.build(new_inputs[s.name], dims[s.name], modes, ordering)[1]
            hist = cdrv.NativeCase(code, native.tensor_specs(case, k.problem), ["assemble", "compute", "compute"], {2: reval})
            ev1 = cdrv.NativeCase(code, native.tensor_specs(case, k.problem), ["evaluate"])
            case2 = _dc.replace(case, inputs=new_inputs)
            ev2 = cdrv.NativeCase(code, native.tensor_specs(case2, k.problem), ["evaluate"])
            items.append((case, hist, ev1, ev2))
        b = 8

        def do_chunk(i):
            chunk = items[i : i + b]
            flat = [nc for it in chunk for nc in it[1:]]
            exe, err = cdrv.build_binary(flat, wd, f"c04_{i}", "asan")
            if exe is None:
                return ("build-failed", err)
            out = []
            for j, it in enumerate(chunk):
                out.append((it[0], [cdrv.run_case(exe, 3 * j + q) for q in range(3)]))
            return ("ok", out)

        with ThreadPoolExecutor(max_workers=12) as pool:
            results = list(pool.map(do_chunk, range(0, len(items), b)))
        for st, payload in results:
            if st != "ok":
                run.inconclusive_because(f"C04 ASan driver did not compile: {payload[-300:]}")
                continue
            for case, runs in payload:
                run.evaluated()
                bad = [r for r in runs if r[0] != "ok"]
                if bad:
                    if any(r[0] == "timeout" for r in bad):
                        run.inconclusive_because("a C04 ASan case hit the wall-clock watchdog")
                    else:
                        run.violation(f"emitted-c-history:{bad[0][0]}", {"case": case.describe(), "stderr": bad[0][2][-600:]})
                    continue
                hist, ev1, ev2 = (r[1] for r in runs)
                d1 = native.same_described(hist[1]["tensor"], ev1[0]["tensor"])
                d2 = native.same_described(hist[2]["tensor"], ev2[0]["tensor"])
                if d1 or d2:
                    run.violation("emitted-c:compute-differs-from-evaluate", {"case": case.describe(), "first": d1, "revalued": d2})
                    continue
                run.count("asan_histories_equal_evaluate")
                run.nontrivial(hash((case.key(), "asan-history")))
        if run.counters.get("asan_histories_equal_evaluate", 0) < n // 2:
            run.inconclusive_because("the ASan leg of C04 observed too few histories")
    finally:
        rm_tree(wd)
