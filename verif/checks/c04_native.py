def run_native(run, tier):
    run.counters["native_legs"] = "not built yet"
