"""C07 - peephole optimisation never changes what a kernel computes.

For a program P and a state on which P runs safely to completion on the IR abstract machine,
peephole(P) on the same state must raise no violation, stay within the budget, return the same
value, leave every reachable array numerically equal and perform no access P did not.
(a) kernels: the unoptimised Module is captured by a recording wrapper on the binding
    tensora.generate._tensora.peephole (the one the generator calls);
(b) seeded random well-typed statement/expression trees (verif.irgen) on small environments.
"""

from __future__ import annotations

import json
import random

from .. import controls, engine, gen, irgen, irvm
from ..common import Run, run_shards

PID = "C07"
LEVEL = "translation_validation"
RULE = ("programs = (a) every kernel kind of curated + random-grammar problems, unoptimised vs optimised, on random inputs; "
        "(b) random well-typed statement and expression trees over literals {0,1,2,3,0.0,1.0,k.5,true,false} and typed "
        "variables on 4 environments each; programs whose original is unsafe or non-terminating are discarded; non-trivial = "
        "the optimiser actually rewrote the program; distinct by program text")

FLOATS_DYADIC = (0.0, 1.0, -1.0, 0.5, 2.0, -2.5, 3.0)
NEIGHBOUR_LITERALS = (0.0, 1.0, 1.0000000001, 0.9999999999, 1.0000000000000002, 0.9999999999999999, 1e-12, -1e-12, 5e-324, -1.0, -1.0000000001, 1.5, 2.0)
NEIGHBOUR_ASSIGNMENTS = ["a(i) = b(i) * 1.0000000001", "a(i) = 0.9999999999 * b(i) + c(i)", "a(i) = b(i) + 0.000000000001", "a(i) = b(i) * 1.0000000000000002 * c(i)",
                         "a(i) = (b(i) + 0.0000000000000000000000001) * c(i)", "a(i) = b(i) - 1.0000000001 * c(i)", "a(i) = b(i) * 0.1 * 3.0", "a(i) = 2.5 * (0.1 * b(i))",
                         "a() = b(i) * 1.0000000001", "A(i,j) = B(i,j) * 0.9999999999 + 0.000000001"]
FLOATS_ANY = (0.003, 0.1, -0.7, 1.0 / 3.0, 0.006, 1e16 + 2.0, 123456.789, -1e-3, 2.5, 0.0)

PLAN = {
    "quick": dict(shards=12, fmt=3, inp=1, rnd=500, trees=26000, envs=4),
    "thorough": dict(shards=16, fmt=30, inp=2, rnd=16000, trees=1_500_000, envs=5),
}


# ------------------------------------------------------------------ capturing the unoptimised module


class Capture:
    def __init__(self):
        self.calls = 0
        self.last = None

    def install(self):
        import tensora.generate._tensora as gt

        self.mod = gt
        self.orig = gt.peephole
        cap = self

        def recording_peephole(module):
            result = cap.orig(module)
            cap.calls += 1
            cap.last = (module, result)
            return result

        gt.peephole = recording_peephole

    def uninstall(self):
        self.mod.peephole = self.orig


# ------------------------------------------------------------------ observation of one program on one state


def heap_arrays(heap, out):
    """Reachable result arrays compared by structure: output struct arrays + every live kernel block
    in allocation order."""
    res = {}
    f = out.fields
    top = f["indices"].block.cells
    for l, lp in enumerate(top):
        for j, c in enumerate(lp.block.cells):
            res[f"out.indices[{l}][{j}]"] = None if c.block is None else (c.block.alive, list(c.block.cells))
    v = f["vals"]
    res["out.vals"] = None if v.block is None else (v.block.alive, list(v.block.cells))
    return res


def same_numeric(a, b):
    if a is None or b is None:
        return a is b
    if a[0] != b[0] or len(a[1]) != len(b[1]):
        return False
    for x, y in zip(a[1], b[1]):
        if x is irvm.UNINIT or y is irvm.UNINIT:
            if x is not y:
                return False
        elif x != y:
            return False
    return True


def run_on(fn, make_state, budget):
    heap, structs, out, ins = make_state()
    m = irvm.Machine(heap, budget=budget, record_access=True)
    ret = m.run(fn, structs)
    return ret, heap_arrays(heap, out), m.access, m


def compare(rec, P, Q, make_state, budget, what, describe):
    """-> 'discarded' | 'equal' | 'violation'"""
    try:
        r0, arrays0, acc0, m0 = run_on(P, make_state, budget)
    except irvm.Unsupported as u:
        rec.inconclusive_because(f"IR abstract machine met an unknown node: {u}")
        return "discarded"
    except irvm.IRViolation as v:
        rec.countd("original_unsafe_discarded", v.kind)
        return "discarded"
    rec.count("comparisons")
    try:
        r1, arrays1, acc1, m1 = run_on(Q, make_state, budget)
    except irvm.Unsupported as u:
        rec.inconclusive_because(f"IR abstract machine met an unknown node: {u}")
        return "discarded"
    except irvm.IRViolation as v:
        rec.violation(f"optimised-program-faults:{v.kind}", {"what": what, "detail": v.detail, **describe()})
        return "violation"
    if r0 != r1:
        rec.violation("return-value-differs", {"what": what, "original": r0, "optimised": r1, **describe()})
        return "violation"
    for k in arrays0:
        if not same_numeric(arrays0[k], arrays1.get(k)):
            rec.violation("array-contents-differ", {"what": what, "array": k, "original": repr(arrays0[k])[:200],
                                                    "optimised": repr(arrays1.get(k))[:200], **describe()})
            return "violation"
    new = acc1 - acc0
    if new:
        rec.violation("optimised-program-performs-new-access", {"what": what, "accesses": sorted(map(repr, new))[:5], **describe()})
        return "violation"
    return "equal"


# ------------------------------------------------------------------ rule-hit accounting (evidence only)


def count_rules(rec, P, Q):
    """Counts, by shape of the original node, which documented rewrites could have fired.  This is
    evidence about workload reach; it plays no part in the verdict."""
    from tensora.ir import ast as A

    def lit(e, v):
        return (isinstance(e, A.IntegerLiteral) and e.value == v) or (isinstance(e, A.FloatLiteral) and e.value == v)

    def walk(e):
        if isinstance(e, A.Add):
            if lit(e.left, 0) or lit(e.right, 0):
                rec.countd("rules_seen", "add_zero")
        elif isinstance(e, A.Subtract):
            if lit(e.right, 0):
                rec.countd("rules_seen", "minus_zero")
        elif isinstance(e, A.Multiply):
            if lit(e.left, 0) or lit(e.right, 0):
                rec.countd("rules_seen", "multiply_zero")
            elif lit(e.left, 1) or lit(e.right, 1):
                rec.countd("rules_seen", "multiply_one")
        elif isinstance(e, (A.Equal, A.GreaterThanOrEqual, A.LessThanOrEqual)):
            if e.left == e.right:
                rec.countd("rules_seen", "equal_same")
        elif isinstance(e, (A.NotEqual, A.GreaterThan, A.LessThan)):
            if e.left == e.right:
                rec.countd("rules_seen", "not_equal_same")
        elif isinstance(e, A.And):
            for s in (e.left, e.right):
                if isinstance(s, A.BooleanLiteral):
                    rec.countd("rules_seen", "and_true" if s.value else "and_false")
        elif isinstance(e, A.Or):
            for s in (e.left, e.right):
                if isinstance(s, A.BooleanLiteral):
                    rec.countd("rules_seen", "or_true" if s.value else "or_false")
        elif isinstance(e, A.BooleanToInteger):
            if isinstance(e.expression, A.BooleanLiteral):
                rec.countd("rules_seen", "boolean_cast_constant")
        elif isinstance(e, A.Branch):
            if isinstance(e.condition, A.BooleanLiteral):
                rec.countd("rules_seen", "branch_true" if e.condition.value else "branch_false")
        elif isinstance(e, A.Loop):
            if isinstance(e.condition, A.BooleanLiteral) and not e.condition.value:
                rec.countd("rules_seen", "loop_false")
        elif isinstance(e, A.Block):
            if e.is_empty():
                rec.countd("rules_seen", "empty_block")
        elif isinstance(e, A.Assignment):
            if e.target == e.value:
                rec.countd("rules_seen", "redundant_assignment")
        for name in getattr(e, "__slots__", ()):
            c = getattr(e, name)
            if isinstance(c, A.Statement):
                walk(c)
            elif isinstance(c, list):
                for x in c:
                    if isinstance(x, A.Statement):
                        walk(x)

    walk(P.body)


# ------------------------------------------------------------------ shards


def tree_state(ia, fa):
    def make():
        heap = irvm.Heap()
        tin = heap.make_tensor("in", "input", (1000,), ("s",), (0,), [([0, irgen.N], ia)], fa)
        tout = heap.make_tensor("out", "output", (irgen.M,), ("s",), (0,))
        return heap, [tout, tin], tout, [tin]

    return make


def shard(rec, tier, index, n_shards):
    from tensora.codegen import ir_to_c_function_definition
    from tensora.ir import peephole_function_definition

    plan = PLAN[tier]
    rng = random.Random(f"C07-{rec.seed}-{index}")

    # (b) trees
    n_trees = plan["trees"] // n_shards
    for t in range(n_trees):
        stmt = t % 3 != 0
        # every fourth tree draws its float literals from the NEIGHBOURS of the identity elements the rules compare
        # with (a rule that fires for "almost 1.0" or "almost 0.0" changes the value)
        kw = {"float_literals": NEIGHBOUR_LITERALS} if t % 4 == 1 else {}
        if kw:
            rec.count("trees_with_neighbour_literals")
        P = irgen.statement_program(rng, early_return=0.06 if t % 2 else 0.0, **kw) if stmt else irgen.expression_program(rng, **kw)
        Q = peephole_function_definition(P)
        rec.count("programs")
        rec.evaluated()
        rewritten = Q != P
        if not rewritten:
            rec.count("trees_not_rewritten")
            continue
        if t < 400:
            count_rules(rec, P, Q)
        text = None

        def describe():
            return {"original_c": ir_to_c_function_definition(P)[-1500:], "optimised_c": ir_to_c_function_definition(Q)[-1500:]}

        ok = 0
        for e in range(plan["envs"]):
            # finite floats of every kind: dyadic, non-dyadic (0.003, 0.1: re-association is visible) and large
            ia, fa = irgen.environment(rng, float_values=FLOATS_DYADIC if e % 2 == 0 else FLOATS_ANY)
            verdict = compare(rec, P, Q, tree_state(ia, fa), 20_000, "statement-tree" if stmt else "expression-tree",
                              lambda ia=ia, fa=fa: {"ia": ia, "fa": fa, **describe()})
            if verdict == "equal":
                ok += 1
            elif verdict == "violation":
                break
        if ok:
            rec.count("rewritten_trees_compared_equal")
            rec.nontrivial(hash(repr(P)))
            if rec.counters["rewritten_trees_compared_equal"] <= 1:
                rec.sample(describe())

    # (a) kernels
    cap = Capture()
    cap.install()
    try:
        cases = list(engine.curated_cases(rng, plan["fmt"], plan["inp"]))[index::n_shards]
        cases += list(engine.random_cases(rng, plan["rnd"] // n_shards, 1))
        for text in NEIGHBOUR_ASSIGNMENTS[index::n_shards] if tier == "quick" else NEIGHBOUR_ASSIGNMENTS:
            target, tree = gen.parse(text)
            for _ in range(3):
                cases.append(engine.build_case(rng, target, tree, None, values=gen.ULP + gen.DYADIC + [1e10, 3.0, 7.0], origin="neighbour-literals", sizes_pool=[3, 4]))
        for case in cases:
            try:
                problem = engine.make_problem(case)
                before = cap.calls
                engine.generate_module(problem, ("assemble", "compute", "evaluate"), case.capacity)
            except (engine.Refused, engine.InternalError):
                continue
            if cap.calls != before + 1:
                rec.inconclusive_because("the peephole binding of generate_module_tensora was not reached by the wrapper")
                return
            raw_module, opt_module = cap.last
            rec.count("kernel_modules_captured")
            for P, Q in zip(raw_module.definitions, opt_module.definitions):
                kind = P.name.name
                rec.count("programs")
                rec.evaluated()
                if kind == "compute":
                    # compute needs an assembled output: run the (optimised) assemble kernel first on each heap
                    asm = opt_module.definitions[0]

                    def make(case=case, problem=problem, asm=asm):
                        heap, structs, out, ins = engine.setup_heap(case, problem)
                        irvm.Machine(heap, budget=engine.step_budget(case)).run(asm, structs)
                        return heap, structs, out, ins
                else:
                    def make(case=case, problem=problem):
                        return engine.setup_heap(case, problem)
                try:
                    verdict = compare(rec, P, Q, make, engine.step_budget(case), f"kernel:{kind}", lambda: {"case": case.describe()})
                except irvm.IRViolation:
                    continue
                if verdict == "equal" and P != Q:
                    rec.count("rewritten_kernels_compared_equal")
                    rec.nontrivial(hash((case.key(), kind)))
    finally:
        cap.uninstall()


def positive_control():
    """A wrong 'optimisation' (0 - x => x) must be detected by compare()."""
    from tensora.ir import ast as A

    rec = Run(PID, "quick", LEVEL, "")
    V, IL = A.Variable, A.IntegerLiteral
    P = irgen.wrap([A.Assignment(A.ArrayIndex(V("oi"), IL(0)), A.Subtract(IL(0), V("i0")))], IL(0))
    Q = irgen.wrap([A.Assignment(A.ArrayIndex(V("oi"), IL(0)), V("i0"))], IL(0))
    v = compare(rec, P, Q, tree_state([3, 1, 2, 0], [0.0] * 4), 10_000, "control", lambda: {})
    # and an optimisation that adds an access (reads ia[3] that P never read)
    Q2 = irgen.wrap([A.Assignment(A.ArrayIndex(V("oi"), IL(0)), A.Subtract(IL(0), V("i0"))),
                     A.Assignment(A.ArrayIndex(V("oi"), IL(1)), A.ArrayIndex(V("oi"), IL(1)))], IL(0))
    v2 = compare(rec, P, Q2, tree_state([3, 1, 2, 0], [0.0] * 4), 10_000, "control", lambda: {})
    return v == "violation" and v2 == "violation"


def main(tier):
    run = Run(PID, tier, LEVEL, RULE)
    bad = controls.all_fired(controls.irvm_controls())
    if not positive_control():
        bad.append("equivalence-oracle")
    for b in bad:
        run.inconclusive_because(f"positive control did not fire: {b}")
    plan = PLAN[tier]
    run_shards(run, "c07", plan["shards"], timeout_s=3600 if tier == "quick" else 14400)
    seen = run.counters.get("rules_seen", {})
    documented = ["add_zero", "minus_zero", "multiply_zero", "multiply_one", "equal_same", "not_equal_same", "and_true",
                  "and_false", "or_true", "or_false", "boolean_cast_constant", "branch_true", "branch_false", "loop_false",
                  "empty_block", "redundant_assignment"]
    missing = [r for r in documented if not seen.get(r)]
    if missing:
        run.inconclusive_because(f"documented rewrite shapes never generated: {missing}")
    if run.counters.get("rewritten_trees_compared_equal", 0) < 1000 or run.counters.get("kernel_modules_captured", 0) < 100:
        run.inconclusive_because("too few rewritten programs were compared")
    run.assumptions += [
        "floating-point equality is numerical (0.0 == -0.0); states with non-finite floats or out-of-range ints are outside the property and not generated",
        "kernel blocks are identified by allocation sequence number, so an optimisation that removed an allocation would be reported as a difference",
    ]
    return run.finish({"programs": int(run.counters.get("programs", 0)), "disagreements_checked": int(run.counters.get("comparisons", 0))})


def replay(path):
    print("replay: the witness holds the original and optimised program text and the environment; re-run the check with the same VERIF_SEED")
    return 0
