"""C10 - inconsistent arguments are refused before any kernel runs.

Events: kernel_enter (a counting wrapper installed on the compiled function pointer the
TensorMethod holds), the exception type at the client boundary, the process exit status of the
shard.  Oracle: every single-fault call raises TypeError/ValueError or a documented problem error
and kernel_enter does not advance; the untouched consistent call returns and advances it."""

from __future__ import annotations

import json
import random

from .. import engine, gen, taco
from ..common import Run, run_shards

PID = "C10"
LEVEL = "fault_enumeration"
RULE = ("for curated + random assignments x random formats: one consistent call (must return, must enter the kernel once) and every "
        "way of making exactly one argument inconsistent - missing, extra, positional, non-Tensor (list, float, None, duck-typed "
        "object, numpy-like), order +-1, one mode flipped, ordering permuted, one dimension of one participant +-1 for every "
        "participant of every shared index - through tensor_method(...)() and evaluate(); non-trivial = a fault call that was "
        "judged; distinct by (assignment, formats, fault)")

ALLOWED = ("TypeError", "ValueError", "UndefinedReferenceError", "UnusedFormatError", "IncorrectDimensionsError")


class Counter:
    def __init__(self):
        self.n = 0


def counting_class(counter):
    """TensorMethod subclass whose compiled function pointer counts every entry (verif/kernelhook.py)."""
    from .. import kernelhook

    def wrap(fn, method):
        def kernel(*args):
            counter.n += 1
            return fn(*args)

        return kernel

    return kernelhook.hooked_class(wrap)


class Duck:
    """Looks like a Tensor to attribute access but is not one."""

    def __init__(self, t):
        self.format = t.format
        self.order = t.order
        self.modes = t.modes
        self.mode_ordering = t.mode_ordering
        self.dimensions = t.dimensions
        self.cffi_tensor = None


def faults_for(rng, case, tensors, dims, for_evaluate):
    """Yield (fault name, kwargs, args) for every single-argument fault."""
    names = list(tensors)
    for n in names:
        kw = {k: v for k, v in tensors.items() if k != n}
        yield f"missing:{n}", kw, ()
    yield "extra", {**tensors, "zzz": tensors[names[0]]}, ()
    # an extra argument spelled like the TARGET of the assignment (a kernel parameter, but not an argument)
    tname = case.target[1]
    if tname not in tensors:
        yield f"extra-named-like-target:{tname}", {**tensors, tname: tensors[names[0]]}, ()
        tdims = tuple(case.sizes[i] for i in case.target[2])
        tm, to = taco.parse_fmt(case.formats[tname])
        yield f"extra-output-shaped-named-like-target:{tname}", {**tensors, tname: taco.to_tensor({}, tdims, tm, to)}, ()
    if not for_evaluate:
        yield "positional", {k: v for k, v in tensors.items() if k != names[0]}, (tensors[names[0]],)
    for n in names:
        for label, bad in (("list", [1.0, 2.0]), ("float", 1.5), ("none", None), ("duck", Duck(tensors[n])), ("str", "ds")):
            yield f"nontensor-{label}:{n}", {**tensors, n: bad}, ()
    for n in names:
        modes, ordering = taco.parse_fmt(case.formats[n])
        d = dims[n]
        # order +-1
        yield f"order+1:{n}", {**tensors, n: taco.to_tensor({}, tuple(d) + (2,), tuple(modes) + ("d",), tuple(ordering) + (len(d),))}, ()
        if len(d) >= 1:
            lvl = list(ordering).index(len(d) - 1)
            m2 = tuple(m for k, m in enumerate(modes) if k != lvl)
            o2 = tuple(x for x in ordering if x != len(d) - 1)
            yield f"order-1:{n}", {**tensors, n: taco.to_tensor({}, tuple(d[:-1]), m2, o2)}, ()
        if not for_evaluate:
            for l in range(len(d)):
                flipped = tuple(("s" if m == "d" else "d") if k == l else m for k, m in enumerate(modes))
                yield f"mode-flip{l}:{n}", {**tensors, n: taco.to_tensor(case.inputs[n], d, flipped, ordering)}, ()
            if len(d) >= 2:
                perm = list(ordering)
                perm[0], perm[1] = perm[1], perm[0]
                yield f"ordering-swap:{n}", {**tensors, n: taco.to_tensor(case.inputs[n], d, modes, tuple(perm))}, ()
    # dimension of one participant off by +-1, for every participant of every index shared by >= 2 positions
    refs = gen.tensors_of(case.tree)
    part = {}
    for n, rl in refs.items():
        for ref in rl:
            for pos, i in enumerate(ref):
                if (n, pos) not in part.setdefault(i, []):
                    part[i].append((n, pos))
    for i, ps in part.items():
        if len(ps) < 2:
            continue
        for n, pos in ps:
            for delta in (+1, -1):
                nd = list(dims[n])
                nd[pos] += delta
                if nd[pos] < 0:
                    continue
                # if the same tensor holds the index at two positions the tensor itself becomes non-square: still a fault
                modes, ordering = taco.parse_fmt(case.formats[n])
                ent = {c: v for c, v in case.inputs[n].items() if all(x < y for x, y in zip(c, nd))}
                yield f"dim{delta:+d}:{i}:{n}[{pos}]", {**tensors, n: taco.to_tensor(ent, tuple(nd), modes, ordering)}, ()


def probe(rec, counter, call, what, ctx):
    before = counter.n
    rec.evaluated()
    try:
        r = call()
    except Exception as exc:  # noqa: BLE001
        name = type(exc).__name__
        if counter.n != before:
            rec.violation("kernel-entered-before-refusal", {"fault": what, **ctx, "exception": name})
            return
        refusal_of_another_problem = (ctx["path"].startswith("evaluate") and name in ("NoKernelFoundError", "DiagonalAccessError", "BroadcastTargetIndexError"))
        if refusal_of_another_problem:
            # on the evaluate path the formats come from the arguments: an argument of another format (or one named like
            # the target) names ANOTHER problem, which may have no kernel - a documented refusal, before any kernel runs
            rec.count("faults_refused")
            rec.countd("refusal_types", name)
            return
        if name not in ALLOWED:
            known = None
            rec.violation(f"refused-with-undocumented:{name}", {"fault": what, **ctx, "error": str(exc)[:200]}, known)
            return
        rec.count("faults_refused")
        rec.countd("refusal_types", name)
        rec.nontrivial(hash((ctx["assignment"], str(ctx["formats"]), what, ctx["path"])))
        return
    rec.violation("inconsistent-call-returned-a-result", {"fault": what, **ctx, "kernel_entered": counter.n != before, "result": repr(r)[:200]})


def do_case(rec, rng, case, backend="llvm"):
    import tensora
    from tensora.compile import BackendCompiler, BroadcastTargetIndexError
    from tensora.desugar import DiagonalAccessError, NoKernelFoundError

    from .. import kernelhook

    counter = Counter()
    cls = counting_class(counter)
    try:
        problem = engine.make_problem(case)
        try:
            method = cls(problem, BackendCompiler.cffi if backend == "cffi" else BackendCompiler.llvm)
        except (DiagonalAccessError, NoKernelFoundError, BroadcastTargetIndexError) as exc:
            raise engine.Refused(type(exc).__name__) from exc
        except Exception as exc:  # noqa: BLE001 - generation failures are C08's subject
            raise engine.InternalError(exc) from exc
    except (engine.Refused, engine.InternalError):
        rec.count("no_kernel")
        return
    dims = engine.input_dims(case)
    tensors = engine.jit_inputs(case)
    ctx = {"assignment": case.assignment, "formats": dict(case.formats), "sizes": dict(case.sizes), "path": f"tensor_method[{backend}]"}
    # positive control: the consistent call returns and enters the kernel exactly once
    try:
        method(**tensors)
    except Exception as exc:  # noqa: BLE001
        rec.violation("consistent-call-raised", {**ctx, "error": f"{type(exc).__name__}: {exc}"[:200]})
        return
    if counter.n != 1:
        rec.inconclusive_because("kernel_enter did not advance on a consistent call: the wrapper is not on the call path")
        return
    rec.count("consistent_calls")
    rec.count(f"consistent_calls_{backend}")
    for what, kw, args in faults_for(rng, case, tensors, dims, False):
        probe(rec, counter, lambda: method(*args, **kw), what, ctx)
    with kernelhook.patched_porcelain(cls):
        if backend == "llvm" and rng.random() < 0.5:
            # the documented string entry point (kernel cache in front of TensorMethod)
            try:
                m2 = tensora.tensor_method(case.assignment, dict(case.formats))
            except Exception as exc:  # noqa: BLE001
                rec.violation("tensor_method-raised-for-a-problem-TensorMethod-accepts", {**ctx, "error": f"{type(exc).__name__}: {exc}"[:200]})
                return
            ctx3 = {**ctx, "path": "tensor_method(str)"}
            before = counter.n
            m2(**tensors)
            if counter.n == before + 1:
                rec.count("consistent_calls_string_api")
                for what, kw, args in faults_for(rng, case, tensors, dims, False):
                    probe(rec, counter, lambda: m2(*args, **kw), what, ctx3)
            else:
                rec.inconclusive_because("kernel_enter did not advance on a consistent tensor_method(str) call")
        # evaluate(): formats come from the arguments, so only name/type/order/dimension faults apply
        out_fmt = case.formats[case.target[1]]
        ctx2 = {**ctx, "path": "evaluate" if backend == "llvm" else "evaluate_cffi"}
        before = counter.n
        evaluate = tensora.evaluate
        if backend == "cffi":
            from tensora.compile import evaluate_cffi as evaluate
        try:
            evaluate(case.assignment, out_fmt, **tensors)
        except Exception as exc:  # noqa: BLE001
            rec.violation("consistent-evaluate-raised", {**ctx2, "error": f"{type(exc).__name__}: {exc}"[:200]})
            return
        if counter.n != before + 1:
            rec.inconclusive_because("kernel_enter did not advance on a consistent evaluate(): hook not on the call path")
            return
        for what, kw, args in faults_for(rng, case, tensors, dims, True):
            probe(rec, counter, lambda: evaluate(case.assignment, out_fmt, **kw), what, ctx2)


SHAPES = [
    "a(i) = b(i)", "a(i) = b(i) + c(i)", "a(i) = b(i) * c(i)", "A(i,j) = B(i,j) + C(i,j)", "A(i,j) = B(i,j) * C(j,i)",
    "a(i) = B(i,j) * c(j)", "A(i,k) = B(i,j) * C(j,k)", "a() = b(i) * c(i)", "A(i,j) = B(i,j) * B(j,i)", "A(i,k) = B(i,j) * B(j,k)",
    "A(i,j) = B(i,j) + B(j,i)", "a(i) = b(i) * s()", "A(i,j) = b(i) * c(j)", "A(i,j) = B(i,j,k) * c(k)", "a(i) = b(i) + c(i) + d(i)",
    "A(i,j) = B(i,k) * C(k,j) + D(i,j)", "a(i) = B(i,j) * c(j) + d(i)", "A(i,j,k) = B(i,j,k) + C(i,j,k)", "a(i) = b(i) * b(i)",
    "a() = B(i,j) * C(j,i)", "A(i,j) = B(i,j) + c(j)", "a(i) = 2 * b(i) + c(i)", "A(i,l) = B(i,j,k) * C(j,l) * D(k,l)", "a(j) = b(i) * C(i,j)",
]


def shard(rec, tier, index, n_shards):
    rng = random.Random(f"C10-{rec.seed}-{index}")
    reps = 4 if tier == "quick" else 80
    sizes = [1, 2, 3, 3, 4]
    n = 0
    for text in SHAPES[index::n_shards]:
        target, tree = gen.parse(text)
        for _ in range(reps):
            case = engine.build_case(rng, target, tree, None, capacity=None, origin="curated", sizes_pool=sizes)
            do_case(rec, rng, case)
            n += 1
    for _ in range((180 if tier == "quick" else 15000) // n_shards):
        target, tree = gen.random_assignment(rng, allow_broadcast_target=False)
        case = engine.build_case(rng, target, tree, None, capacity=None, origin="random", sizes_pool=sizes)
        do_case(rec, rng, case)
    # the cffi back end: same validation code, other kernel object; ~1 s of C compilation per kernel,
    # so a few per shard only (each kernel is compiled twice: TensorMethod and the evaluate_cffi cache)
    cffi_shapes = ["a(i) = b(i) * c(i)", "A(i,j) = B(i,j) * B(j,i)", "A(i,k) = B(i,j) * C(j,k)", "a(i) = B(i,j) * c(j) + d(i)",
                   "A(i,j) = B(i,j) + c(j)", "a() = B(i,j) * C(j,i)"]
    for k, text in enumerate(cffi_shapes if tier == "thorough" else cffi_shapes[:4]):
        if k % n_shards != index % len(cffi_shapes) and not (tier == "thorough" and (k + index) % 3 == 0):
            continue
        target, tree = gen.parse(text)
        case = engine.build_case(rng, target, tree, None, capacity=None, origin="curated-cffi", sizes_pool=sizes)
        do_case(rec, rng, case, backend="cffi")
    # zero-sized dimensions next to size-1 ones (the -1 fault is skipped at 0, the +1 fault is 0 vs 1)
    for text in SHAPES[index::n_shards][:3]:
        target, tree = gen.parse(text)
        case = engine.build_case(rng, target, tree, None, capacity=None, origin="curated-zero", sizes_pool=[0, 0, 1])
        do_case(rec, rng, case)
    if index == 0:
        rec.sample({"assignment": "A(i,j) = B(i,j) * B(j,i)", "faults": ["missing:B", "extra", "positional", "nontensor-duck:B", "order+1:B", "mode-flip0:B", "ordering-swap:B", "dim+1:i:B[0]", "dim-1:j:B[1]"]})


def main(tier):
    run = Run(PID, tier, LEVEL, RULE)
    run_shards(run, "c10", 12 if tier == "quick" else 16, timeout_s=3600 if tier == "quick" else 7200)
    if run.counters.get("consistent_calls", 0) < 15 or run.counters.get("faults_refused", 0) < 1000:
        run.inconclusive_because("too few fault injections were judged")
    if run.counters.get("consistent_calls_cffi", 0) < 1:
        run.inconclusive_because("no kernel of the cffi back end was driven")
    run.assumptions += [
        "kernel entry is observed at the compiled function pointer held by the TensorMethod (positive control: a consistent call advances it)",
        "for evaluate() a different format is a different problem, not a fault",
    ]
    return run.finish()


def replay(path):
    d = json.load(open(path))
    print("replay witness:", json.dumps(d["witness"])[:800])
    return 0
