"""C01 - evaluate computes the mathematical meaning of the assignment, in every format.

Observed at: (a) the evaluate kernel of generate_module_tensora run on the IR abstract machine,
(b) the return value of TensorMethod (LLVM JIT, the evaluate() path) read raw.
Oracle: refsem (exact Fractions) on dyadic inputs; dimension tuple equality.
"""

from __future__ import annotations

import json
import random

from .. import controls, engine, gen, sweep
from ..common import Run, run_shards

PID = "C01"
LEVEL = "exploration"
RULE = ("cases = curated assignment shapes x random format assignments x random inputs (dyadic values, sizes 0..4, "
        "explicit zeros, empty tensors) + seeded random-grammar assignments with commuted/re-associated/renamed variants, "
        "each run on the IR abstract machine and (a sample) through the LLVM JIT; non-trivial = a kernel was produced, "
        "some input stores an entry and the reference output is not all zero; distinct by (assignment, formats, sizes, "
        "stored inputs, capacity)")

ORDER4 = ["A(i,j,k,l) = B(i,j,k,l)", "A(i,j,k,l) = B(l,k,j,i)", "A(i,j,k,l) = B(i,j,k,l) + C(i,j,k,l)", "A(i,j) = B(i,j,k,l) * C(k,l)",
          "a(i) = B(i,j,k,l) * c(j) * d(k) * e(l)", "A(i,j,k,l) = b(i) * c(j) * d(k) * e(l)"]

PLAN = {
    "quick": dict(shards=12, fmt=10, inp=2, rnd=1300, draws=3, jit_every=3, lattice=240, medium=240),
    "thorough": dict(shards=16, fmt=60, inp=3, rnd=16000, draws=4, jit_every=2, lattice=4800, medium=2400),
}


def judge(rec, o, tag):
    case = o.case
    if o.status == "refused":
        rec.count(f"{tag}_refused")
        return
    if o.status == "internal":
        rec.count(f"{tag}_generation_error_not_judged_here")
        return
    if o.status == "unsupported":
        rec.count(f"{tag}_unsupported_ir")
        rec.inconclusive_because(f"IR abstract machine met an unknown node: {o.reason}")
        return
    if o.violation is not None:
        rec.count(f"{tag}_execution_violation_not_judged_here")
        rec.countd("execution_violation_kinds", o.violation.kind)
        return
    if o.malformed is not None:
        rec.count(f"{tag}_malformed_output_not_judged_here")
        return
    rec.count(f"{tag}_judged")
    j = sweep.c01_judge(o)
    nontrivial = any(len(v) for v in case.inputs.values())
    if j is None:
        if nontrivial and any(v != 0 for v in o.decoded.values()):
            rec.nontrivial(hash(case.key()))
        return
    cls, witness, known = j
    w = {"executor": tag, "case": case.describe(), **witness}
    rec.violation(f"{cls}" if known is None else f"{cls}:{known}", w, known)


def shard(rec, tier, index, n_shards):
    plan = PLAN[tier]
    rng = random.Random(f"C01-{rec.seed}-{index}")
    cache = {}
    n = 0
    shapes = list(gen.CURATED) + list(gen.BROADCAST)

    def do(case):
        nonlocal n
        n += 1
        rec.evaluated()
        o = sweep.observe_irvm(case)
        judge(rec, o, "irvm")
        if n <= 2:
            rec.sample({"case": case.describe(), "status": o.status,
                        "decoded": {str(list(k)): v for k, v in (o.decoded or {}).items()}})
        clean = o.status == "ran" and o.violation is None and o.malformed is None
        if clean and n % plan["jit_every"] == 0:
            oj = sweep.observe_jit(case, cache)
            rec.evaluated()
            if oj.status == "internal":
                # the JIT path raised although the abstract machine ran the same kernel
                rec.count("jit_call_error_not_judged_here")
            judge(rec, oj, "jit")
        if len(cache) > 400:
            cache.clear()

    for text in shapes[index::n_shards]:
        target, tree = gen.parse(text)
        orders = gen.tensor_orders(target, tree)
        for k_, formats in enumerate(gen.format_plan(rng, orders, plan["fmt"])):
            for _ in range(plan["inp"] * (4 if k_ == 0 else 1)):  # the all-compressed assignment gets more inputs
                do(engine.build_case(rng, target, tree, formats, origin="curated"))
    if tier == "thorough":
        # bounded-exhaustive: every format assignment of every curated shape whose product is <= 20000,
        # plus order-4 shapes with sampled formats
        import itertools

        from .. import taco

        k = 0
        for text in shapes + ORDER4:
            target, tree = gen.parse(text)
            orders = gen.tensor_orders(target, tree)
            names = list(orders)
            spaces = [taco.all_formats(orders[n_]) for n_ in names]
            total = 1
            for sp in spaces:
                total *= len(sp)
            if total <= 20000:
                combos = itertools.product(*spaces)
                rec.count("shapes_with_exhaustive_formats", 1 if index == 0 else 0)
            else:
                combos = (tuple(rng.choice(sp) for sp in spaces) for _ in range(3000))
            for combo in combos:
                k += 1
                if k % n_shards != index:
                    continue
                formats = {n_: taco.fmt_text(*f) for n_, f in zip(names, combo)}
                do(engine.build_case(rng, target, tree, formats, origin="exhaustive-formats"))
    per = plan["rnd"] // n_shards
    for case in engine.random_cases(rng, per, plan["draws"]):
        do(case)
    for case in engine.lattice_cases(rng, plan["lattice"] // n_shards, 3):
        rec.count("lattice_cases")
        do(case)
    for case in engine.medium_cases(rng, plan["medium"] // n_shards):
        rec.count("medium_size_cases")
        do(case)
    for case in engine.wide_cases(rng, 8 if tier == "quick" else 60):
        rec.count("wide_cases")
        do(case)
    for case in engine.high_order_cases(rng, 6 if tier == "quick" else 60):
        rec.count("high_order_cases")
        do(case)
    # bounded-exhaustive small shapes (engine.small_shapes): a seeded third in quick, all in thorough
    third = 1 if tier == "thorough" else 3
    for case in engine.small_shape_cases(rng, index + n_shards * (rec.seed % third), n_shards * third, draws=3, out_modes=("s", "d")):
        rec.count("small_shape_cases")
        do(case)


def main(tier):
    run = Run(PID, tier, LEVEL, RULE)
    bad = controls.all_fired(controls.irvm_controls()) + controls.all_fired(controls.validator_controls())
    # positive control for the oracle itself: a perturbed output must be rejected
    rng = random.Random(1)
    target, tree = gen.parse("A(i,k) = B(i,j) * C(j,k)")
    case = engine.build_case(rng, target, tree, {"A": "dd", "B": "ds", "C": "ds"}, capacity=None, sizes_pool=[2, 3])
    for n in case.inputs:
        case.inputs[n] = {c: 1.0 for c in case.inputs[n]} or {(0, 0): 1.0}
    o = sweep.observe_irvm(case)
    if o.status != "ran" or o.decoded is None or sweep.c01_judge(o) is not None:
        bad.append("oracle-accepts-correct-matmul")
    else:
        k = sorted(o.decoded)[0]
        o.decoded[k] += 1.0
        if sweep.c01_judge(o) is None:
            bad.append("oracle-rejects-perturbed-output")
    for b in bad:
        run.inconclusive_because(f"positive control did not fire: {b}")
    run.counters["positive_controls"] = 19 - len(bad)
    plan = PLAN[tier]
    run_shards(run, "c01", plan["shards"], timeout_s=3600 if tier == "quick" else 7200)
    if run.counters.get("irvm_judged", 0) < 500 or run.counters.get("jit_judged", 0) < 100:
        run.inconclusive_because("too few kernels were produced and judged")
    from .. import contracts_leg

    contracts_leg.run(run, PID, tier)
    run.assumptions += [
        "refsem (expansion into signed products, exact Fraction arithmetic) is the meaning of the assignment",
        "inputs are handed over through taco_structure_to_cffi; values are dyadic so any association order is exact",
        "memory/termination violations of a kernel are judged by C05, refusals/internal errors by C08",
    ]
    return run.finish()


def replay(path):
    d = json.load(open(path))
    w = d["witness"]
    case = engine.case_from_description(w["case"])
    o = sweep.observe_irvm(case) if w.get("executor") != "jit" else sweep.observe_jit(case)
    j = sweep.c01_judge(o) if o.decoded is not None else ("not-judged", {"status": o.status, "reason": o.reason}, None)
    print("replay:", json.dumps({"status": o.status, "judgement": repr(j)}))
    if j is not None and j[2] is None:
        print(f"VIOLATION property={PID} replay={path}")
        return 1
    return 0
