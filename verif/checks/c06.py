"""C06 - the C and LLVM back ends implement the same kernel.

For one IR Module and one input, three executors must agree bit for bit (sign of zero excepted):
the IR abstract machine, the emitted C compiled by gcc (under ASan+UBSan, with a generated driver),
and the emitted LLVM JIT-compiled by the repository's own compile_module.  Workloads: (1) kernels
of all three kinds on ulp-sensitive values; (2) printer-level random well-typed IR programs
(precedence, mixed int/float promotion, min/max, bool->int, compound-assignment sugar,
short-circuit guards).  Emitted C must pass gcc -std=c11 -pedantic-errors under the published
header and the LLVM module must verify."""

from __future__ import annotations

import contextlib
import json
import random

from .. import cdrv, controls, engine, gen, irgen, irvm, native, taco
from ..common import Run, rm_tree, run_shards, work_dir

PID = "C06"
LEVEL = "translation_validation"
RULE = ("programs = (1) IR modules of curated + random-grammar problems (evaluate, and assemble+compute histories) on inputs with "
        "ulp-sensitive values (0.1, 0.2, 0.3, 1/3, 1e16+2, ...) and capacities 1..16; (2) random well-typed IR programs with "
        "expression trees of depth <= 4 and statement trees; each executed by the abstract machine, by gcc-compiled emitted C "
        "(ASan+UBSan) and by the JIT-compiled emitted LLVM; outputs compared bit for bit; programs the abstract machine finds "
        "unsafe are discarded; non-trivial = all three executors completed and were compared; distinct by program text + input")

PLAN = {
    "quick": dict(shards=12, kernels=216, trees=1200, batch=60),
    "thorough": dict(shards=16, kernels=6000, trees=48000, batch=60),
}


@contextlib.contextmanager
def parenthesis_preserving_c_printer():
    """Counterfactual for the K5 classifier: print right-nested + and * with their parentheses."""
    from tensora.codegen import _ir_to_c as P
    from tensora.ir import ast as A

    orig_add, orig_mul = P.ir_to_c_add, P.ir_to_c_multiply

    def add(self):
        return f"{P.ir_to_c_expression(self.left)} + {P.parens(self.right, (A.Add, A.Subtract))}"

    def mul(self):
        return f"{P.parens(self.left, (A.Add, A.Subtract))} * {P.parens(self.right, (A.Add, A.Subtract, A.Multiply))}"

    P.ir_to_c_expression.register(A.Add)(add)
    P.ir_to_c_expression.register(A.Multiply)(mul)
    try:
        yield
    finally:
        P.ir_to_c_expression.register(A.Add)(orig_add)
        P.ir_to_c_expression.register(A.Multiply)(orig_mul)


def has_right_nested_float_op(module):
    """Syntactic predicate of K5: some Add(x, Add|Subtract(..)) or Multiply(x, Multiply(..))."""
    from tensora.ir import ast as A

    found = [False]

    def walk(e):
        if found[0]:
            return
        if isinstance(e, A.Add) and isinstance(e.right, (A.Add, A.Subtract)):
            found[0] = True
        if isinstance(e, A.Multiply) and isinstance(e.right, A.Multiply):
            found[0] = True
        for name in getattr(e, "__slots__", ()):
            c = getattr(e, name)
            if isinstance(c, A.Statement):
                walk(c)
            elif isinstance(c, list):
                for x in c:
                    if isinstance(x, (A.Statement, A.FunctionDefinition)):
                        walk(x)
        if isinstance(e, A.FunctionDefinition):
            walk(e.body)

    for f in module.definitions:
        walk(f)
    return found[0]


class Item:
    """One program + input, with the three executors' results."""

    def __init__(self, module, specs, calls, revalues, describe, make_state):
        self.module = module
        self.specs = specs
        self.calls = calls
        self.revalues = revalues
        self.describe = describe
        self.make_state = make_state
        self.irvm = None
        self.c = None
        self.jit = None


def irvm_results(item):
    """Run the calls on the abstract machine.  -> list like the native dumps, or raises."""
    heap, structs, out, ins = item.make_state()
    fns = {f.name.name: f for f in item.module.definitions}
    res = []
    for ci, fn in enumerate(item.calls):
        for name, vals in item.revalues.get(ci, {}).items():
            for s in ins:
                if s.name == name:
                    s.fields["vals"].block.cells[:] = list(vals)
        snap = irvm.snapshot_inputs(ins)
        m = irvm.Machine(heap, budget=400_000)
        ret = m.run(fns[fn], structs)
        irvm.check_snapshot(ins, snap)
        rec = {"fn": fn, "ret": ret, "inputs_unchanged": True, "tensor": None}
        if fn != "assemble":
            rec["tensor"] = native.described(irvm.read_struct(out))
        res.append(rec)
    return res


def compare_item(rec, item, wd):
    """Judge one item whose three results are filled in."""
    d = item.describe()
    pairs = [("irvm", item.irvm, "c", item.c), ("irvm", item.irvm, "llvm", item.jit), ("c", item.c, "llvm", item.jit)]
    for na, a, nb, b in pairs:
        rec.count("comparisons")
        diff = None
        if len(a) != len(b):
            diff = f"{len(a)} vs {len(b)} calls completed"
        else:
            for ca, cb in zip(a, b):
                if ca["ret"] != cb["ret"]:
                    diff = f"return {ca['ret']} vs {cb['ret']} in {ca['fn']}"
                    break
                if ca["inputs_unchanged"] is False or cb["inputs_unchanged"] is False:
                    diff = f"inputs modified in {ca['fn']}"
                    break
                if (ca["tensor"] is None) != (cb["tensor"] is None):
                    diff = "output missing"
                    break
                if ca["tensor"] is not None:
                    x = native.same_described(ca["tensor"], cb["tensor"])
                    if x:
                        diff = f"{ca['fn']}: {x}"
                        break
        if diff:
            known = None
            if "c" in (na, nb) and has_right_nested_float_op(item.module):
                # counterfactual: the same module printed with parentheses preserved
                from tensora.codegen import ir_to_c

                with parenthesis_preserving_c_printer():
                    code2 = ir_to_c(item.module)
                nc = cdrv.NativeCase(code2, item.specs, item.calls, item.revalues)
                exe, err = cdrv.build_binary([nc], wd, f"k5_{rec.counters.get('comparisons', 0)}", "plain")
                if exe:
                    st, dump, _ = cdrv.run_case(exe, 0)
                    other = item.irvm if na == "irvm" or nb == "irvm" else item.jit
                    if st == "ok" and len(dump) == len(other) and all(
                        (x["tensor"] is None and y["tensor"] is None) or native.same_described(x["tensor"], y["tensor"]) is None
                        for x, y in zip(dump, other)
                    ):
                        known = "c-printer-right-nested-float"
            rec.violation(f"executors-disagree:{na}-vs-{nb}" + (":" + known if known else ""), {"difference": diff[:500], **d}, known)
            return False
    return True


def process_batch(rec, items, wd, tag):
    """Compile the batch's C once (ASan+UBSan), run every item through C and JIT, compare."""
    from tensora.codegen import ir_to_c, ir_to_llvm
    import llvmlite.binding as llvm

    live = []
    for it in items:
        rec.count("programs")
        rec.evaluated()
        try:
            it.irvm = irvm_results(it)
        except irvm.Unsupported as u:
            rec.inconclusive_because(f"IR abstract machine met an unknown node: {u}")
            continue
        except irvm.IRViolation as v:
            rec.countd("unsafe_on_abstract_machine_discarded", v.kind)
            continue
        try:
            it.code = ir_to_c(it.module)
            it.llvm_text = str(ir_to_llvm(it.module))
            mod = llvm.parse_assembly(it.llvm_text)
            mod.verify()
        except Exception as exc:  # noqa: BLE001
            rec.violation(f"printer-or-verifier-raised:{type(exc).__name__}", {"error": str(exc)[:300], **it.describe()})
            continue
        live.append(it)
    if not live:
        return
    bad = cdrv.syntax_check([it.code for it in live], wd, tag=f"syn{tag}")
    for i, err in bad:
        rec.violation("emitted-c-not-standard-c", {"gcc": err[-400:], **live[i].describe()})
    badset = {i for i, _ in bad}
    live = [it for i, it in enumerate(live) if i not in badset]
    cases = [cdrv.NativeCase(it.code, it.specs, it.calls, it.revalues) for it in live]
    exe, err = cdrv.build_binary(cases, wd, f"bin{tag}", "asan")
    if exe is None:
        rec.inconclusive_because(f"driver did not compile: {err[-300:]}")
        return
    rec.count("binaries_built")
    for k, it in enumerate(live):
        st, dump, errtail = cdrv.run_case(exe, k)
        if st == "timeout":
            rec.inconclusive_because("a compiled C case hit the wall-clock watchdog")
            continue
        if st != "ok":
            rec.violation(f"emitted-c-{st}", {"stderr": errtail[-600:], **it.describe()})
            continue
        it.c = dump
        from ..common import note_current

        note_current(it.describe())
        try:
            jm = native.JitModule(it.module)
            it.jit = native.jit_run(jm, [cdrv.TensorSpec(s.name, s.dims, s.modes, s.ordering, s.indices, list(s.vals) if s.vals is not None else None, s.role) for s in it.specs],
                                    it.calls, it.revalues, guard=True)
        except Exception as exc:  # noqa: BLE001
            rec.violation(f"jit-raised:{type(exc).__name__}", {"error": str(exc)[:300], **it.describe()})
            continue
        if compare_item(rec, it, wd):
            rec.count("three_way_agreements")
            rec.nontrivial(hash(json.dumps(it.describe(), sort_keys=True, default=str)))
            if rec.counters["three_way_agreements"] <= 1:
                rec.sample({**it.describe(), "result": it.c[-1]["tensor"]})


def kernel_items(rng, n, rec=None):
    items = []
    attempts = 0
    while len(items) < n and attempts < n * 6:
        attempts += 1
        if attempts % 3 == 0:
            target, tree = gen.random_assignment(rng, allow_broadcast_target=True)
        else:
            target, tree = gen.parse(rng.choice(gen.CURATED + gen.BROADCAST))
        special = rng.random() < 0.12
        case = engine.build_case(rng, target, tree, None, values=(gen.ULP + gen.SPECIAL) if special else (gen.ULP + gen.DYADIC), origin="c06")
        if special and rec is not None:
            rec.count("kernel_cases_with_special_values")
        if case.capacity is None:
            case.capacity = 16  # the default 2^20 capacity would make ASan binaries slow
        try:
            problem = engine.make_problem(case)
            module = engine.generate_module(problem, ("assemble", "compute", "evaluate"), case.capacity)
        except (engine.Refused, engine.InternalError):
            continue
        specs = native.tensor_specs(case, problem)
        calls = ["evaluate"] if attempts % 2 else ["assemble", "compute", "compute"]
        revalues = {}
        if len(calls) == 3:
            revalues[2] = {}
            dims = engine.input_dims(case)
            for s in specs:
                if s.role == "input":
                    new = {c: rng.choice(gen.ULP) for c in case.inputs[s.name]}
                    modes, ordering = taco.parse_fmt(case.formats[s.name])
                    revalues[2][s.name] = taco.build(new, dims[s.name], modes, ordering)[1]
        items.append(Item(module, specs, calls, revalues,
                          (lambda case=case, calls=calls: {"kind": "kernel", "case": case.describe(), "calls": calls}),
                          (lambda case=case, problem=problem: engine.setup_heap(case, problem))))
    return items


def tree_items(rng, n):
    from tensora.codegen import ir_to_c_function_definition
    from tensora.ir import ast as A

    items = []
    for t in range(n):
        stmt = t % 3 == 0
        # literals incl. ones that need all 17 significant digits to round-trip through text
        kw = dict(float_literals=(0.0, 1.0, 0.5, 1.5, 0.1, 0.3, 2.5, 0.30000000000000004, 1.0000000000000002, 123456789.12345679,
                                  1e22, 1e-7, 2.2250738585072014e-308), allow_unsafe=0.0)
        fn = irgen.statement_program(rng, **kw) if stmt else irgen.expression_program(rng, **kw)
        module = A.Module([fn])
        ia, fa = irgen.environment(rng, float_values=(0.1, 0.2, 0.3, 1.0 / 3.0, 1e16 + 2.0, -0.7, 1.0, 0.0, 2.5))
        specs = [cdrv.TensorSpec("out", (irgen.M,), ("s",), (0,), None, None, "output"),
                 cdrv.TensorSpec("in", (1000,), ("s",), (0,), [[[0, irgen.N], list(ia)]], list(fa), "input")]

        def make(ia=ia, fa=fa):
            heap = irvm.Heap()
            tin = heap.make_tensor("in", "input", (1000,), ("s",), (0,), [([0, irgen.N], ia)], fa)
            tout = heap.make_tensor("out", "output", (irgen.M,), ("s",), (0,))
            return heap, [tout, tin], tout, [tin]

        items.append(Item(module, specs, ["prog"], {},
                          (lambda fn=fn, ia=ia, fa=fa, stmt=stmt: {"kind": "statement-tree" if stmt else "expression-tree", "ia": ia, "fa": fa,
                                                                  "c": ir_to_c_function_definition(fn)[-1800:]}),
                          make))
    return items


def shard(rec, tier, index, n_shards):
    plan = PLAN[tier]
    rng = random.Random(f"C06-{rec.seed}-{index}")
    wd = work_dir("c06")
    try:
        items = kernel_items(rng, plan["kernels"] // n_shards, rec) + tree_items(rng, plan["trees"] // n_shards)
        # the K5 class as its own small workload so that the classifier is exercised every run
        # float literals that need 17 significant digits (both printers must keep the exact double)
        for text in ["a(i) = b(i) * 0.30000000000000004 + c(i) * 1.0000000000000002 + d(i) * 0.1",
                     "a(i) = b(i) * 123456789.12345679 + c(i) * 1e22 + d(i) * 2.2250738585072014e-308"] if index == 1 else []:
            target, tree = gen.parse(text)
            case = engine.build_case(rng, target, tree, {"a": "d", "b": "d", "c": "s", "d": "d"}, values=gen.ULP, capacity=16, sizes_pool=[4])
            problem = engine.make_problem(case)
            module = engine.generate_module(problem, ("evaluate",), 16)
            items.append(Item(module, native.tensor_specs(case, problem), ["evaluate"], {},
                              (lambda case=case: {"kind": "kernel", "case": case.describe(), "calls": ["evaluate"]}),
                              (lambda case=case, problem=problem: engine.setup_heap(case, problem))))
        for text in ["a(i) = b(i) + (c(i) + d(i))", "a(i) = b(i) * (c(i) * d(i))"] if index == 0 else []:
            target, tree = gen.parse(text)
            case = engine.build_case(rng, target, tree, {"a": "d", "b": "d", "c": "d", "d": "d"}, values=[0.1, 0.2, 0.3, 1.1, 2.3], capacity=16, sizes_pool=[3])
            case.inputs = {n: {(k,): v for k, v in enumerate(vals)} for n, vals in zip("bcd", ([0.1, 0.1, 1e16], [0.2, 0.7, 1.0], [0.3, 0.1, 1.0]))}
            problem = engine.make_problem(case)
            module = engine.generate_module(problem, ("evaluate",), 16)
            items.append(Item(module, native.tensor_specs(case, problem), ["evaluate"], {},
                              (lambda case=case: {"kind": "kernel", "case": case.describe(), "calls": ["evaluate"]}),
                              (lambda case=case, problem=problem: engine.setup_heap(case, problem))))
        b = plan["batch"]
        for k in range(0, len(items), b):
            process_batch(rec, items[k : k + b], wd, f"{index}_{k}")
    finally:
        rm_tree(wd)


def positive_control(run):
    """A module whose C text was tampered with (a - (b + c) printed as a - b + c) must be caught."""
    from tensora.ir import ast as A

    V, IL = A.Variable, A.IntegerLiteral
    fn = irgen.wrap([A.Assignment(A.ArrayIndex(V("oi"), IL(0)), A.Subtract(V("i0"), A.Add(V("i1"), V("i2"))))], IL(0))
    module = A.Module([fn])
    ia, fa = [5, 1, 2, 0], [0.0] * 4
    specs = [cdrv.TensorSpec("out", (irgen.M,), ("s",), (0,), None, None, "output"),
             cdrv.TensorSpec("in", (1000,), ("s",), (0,), [[[0, irgen.N], ia]], fa, "input")]
    from tensora.codegen import ir_to_c

    good = ir_to_c(module)
    bad = good.replace("i0 - (i1 + i2)", "i0 - i1 + i2")
    if bad == good:
        return "control text not found"
    wd = work_dir("c06ctl")
    try:
        exe, err = cdrv.build_binary([cdrv.NativeCase(good, specs, ["prog"]), cdrv.NativeCase(bad, specs, ["prog"])], wd, "ctl", "asan")
        if exe is None:
            return "driver did not compile: " + err[-200:]
        s0, d0, _ = cdrv.run_case(exe, 0)
        s1, d1, _ = cdrv.run_case(exe, 1)
        jm = native.JitModule(module)
        dj = native.jit_run(jm, specs, ["prog"])
        if s0 != "ok" or s1 != "ok":
            return f"control run failed: {s0} {s1}"
        if native.same_described(d0[0]["tensor"], dj[0]["tensor"]) is not None:
            return "C and LLVM disagree on the untampered control"
        if native.same_described(d1[0]["tensor"], dj[0]["tensor"]) is None:
            return "tampered C was not distinguished"
    finally:
        rm_tree(wd)
    return None


def main(tier):
    run = Run(PID, tier, LEVEL, RULE)
    bad = controls.all_fired(controls.irvm_controls())
    pc = positive_control(run)
    if pc:
        bad.append(pc)
    for b in bad:
        run.inconclusive_because(f"positive control did not fire: {b}")
    plan = PLAN[tier]
    run_shards(run, "c06", plan["shards"], timeout_s=3600 if tier == "quick" else 6 * 3600)
    if run.counters.get("three_way_agreements", 0) < 1000:
        run.inconclusive_because("too few programs were compared three ways")
    run.assumptions += [
        "gcc -O1 -ffp-contract=off and the MCJIT perform IEEE double arithmetic without contraction; NaN/inf are never generated",
        "programs on which the abstract machine reports a violation are discarded here (C05/C07 judge them)",
    ]
    return run.finish({"programs": int(run.counters.get("programs", 0)), "disagreements_checked": int(run.counters.get("comparisons", 0))})


def replay(path):
    d = json.load(open(path))
    print("replay witness:", json.dumps(d["witness"])[:1200])
    return 0
