"""C05 - generated kernels are memory-safe, leave inputs untouched and terminate.

Three sanitizer families on the same generated cases:
  irvm  - every load/store/realloc/int op of evaluate, assemble and compute-after-assemble kernels
          on exact-size blocks with initialisation bits, int32 range checks and a step budget;
  cdrv  - the emitted C compiled with gcc -fsanitize=address,undefined and a generated driver;
  jit   - the LLVM module as evaluate() uses it, under valgrind memcheck.
"""

from __future__ import annotations

import json
import random

from .. import controls, engine, gen, sweep
from ..common import Run, run_shards

PID = "C05"
LEVEL = "exploration"
RULE = ("cases = curated shapes + random-grammar assignments x random formats x inputs incl. empty levels and "
        "zero-sized dimensions x initial capacities {1,2,3,5,16,default} x kinds {evaluate, assemble, "
        "compute-after-assemble}; each kernel run under the IR abstract machine's memory/int32/scope/budget monitors, "
        "a sample under gcc ASan+UBSan (emitted C) and under valgrind (LLVM JIT); non-trivial = a kernel ran at least one "
        "loop iteration on an input that stores an entry; distinct by (assignment, formats, sizes, inputs, capacity)")

PLAN = {
    "quick": dict(shards=12, fmt=8, inp=2, rnd=1500, draws=2, lattice=180, medium=180),
    "thorough": dict(shards=16, fmt=60, inp=3, rnd=24000, draws=4, lattice=4800, medium=2400),
}


def record_kernel(rec, o, case, kind):
    if o is None:
        return
    if o.status == "unsupported":
        rec.inconclusive_because(f"IR abstract machine met an unknown node: {o.reason}")
        return
    rec.count(f"kernels_{kind}")
    rec.evaluated()
    if o.violation is not None:
        rec.violation(f"{o.violation.kind}", {"kind": kind, "detail": o.violation.detail, "case": case.describe(), "executor": "irvm"})
        return
    if o.malformed is not None and kind != "assemble":
        # handed-back array shorter than the structure it describes / uninitialised stored cell
        if o.malformed.rule in ("pos-too-short", "crd-too-short", "vals-too-short", "pos-uninitialised",
                                "crd-uninitialised", "vals-uninitialised", "pos-null", "crd-null", "vals-null"):
            rec.violation(f"handed-back:{o.malformed.rule}", {"kind": kind, "detail": o.malformed.detail, "case": case.describe(), "executor": "irvm"})
    elif o.malformed is not None:
        if o.malformed.rule in ("pos-too-short", "crd-too-short", "vals-too-short", "pos-uninitialised", "crd-uninitialised"):
            rec.violation(f"handed-back:{o.malformed.rule}", {"kind": kind, "detail": o.malformed.detail, "case": case.describe(), "executor": "irvm"})
    c = o.counters
    if c is not None:
        rec.count("steps", c.steps)
        rec.count("loop_iterations", c.loop_iters)
        rec.count("loads", c.loads)
        rec.count("stores", c.stores)
        rec.count("mallocs", len(c.mallocs))
        rec.count("realloc_grow", sum(1 for r in c.reallocs if r[3] > r[1]))
        rec.count("realloc_shrink", sum(1 for r in c.reallocs if r[3] < r[1]))
        rec.counters["max_steps_one_kernel"] = max(rec.counters.get("max_steps_one_kernel", 0), c.steps)
        if c.loop_iters > 0 and any(len(v) for v in case.inputs.values()):
            rec.nontrivial(hash((case.key(), kind)))


def do_case(rec, case, one_request=True):
    k = sweep.observe_kinds(case, one_request)
    if k.status == "refused":
        rec.count("refused")
        return k
    if k.status == "internal":
        rec.count("generation_error_not_judged_here")
        return k
    record_kernel(rec, k.evaluate, case, "evaluate")
    record_kernel(rec, k.assemble, case, "assemble")
    record_kernel(rec, k.compute, case, "compute")
    rec.countd("capacity_classes", case.capacity)
    return k


def shard(rec, tier, index, n_shards):
    plan = PLAN[tier]
    rng = random.Random(f"C05-{rec.seed}-{index}")
    shapes = list(gen.CURATED) + list(gen.BROADCAST)
    n = 0
    for text in shapes[index::n_shards]:
        target, tree = gen.parse(text)
        orders = gen.tensor_orders(target, tree)
        for k_, formats in enumerate(gen.format_plan(rng, orders, plan["fmt"])):
            for _ in range(plan["inp"] * (4 if k_ == 0 else 1)):  # the all-compressed assignment gets more inputs
                case = engine.build_case(rng, target, tree, formats, origin="curated")
                k = do_case(rec, case, one_request=(n % 2 == 0))
                n += 1
                if n <= 1 and k.status == "ran":
                    rec.sample({"case": case.describe(),
                                "evaluate_counters": k.evaluate.counters.as_dict() if k.evaluate.counters else None})
    for case in engine.random_cases(rng, plan["rnd"] // n_shards, plan["draws"]):
        do_case(rec, case, one_request=(n % 2 == 0))
        n += 1
    for case in engine.lattice_cases(rng, plan["lattice"] // n_shards, 3):
        rec.count("lattice_cases")
        do_case(rec, case, one_request=(n % 2 == 0))
        n += 1
    for case in engine.medium_cases(rng, plan["medium"] // n_shards):
        rec.count("medium_size_cases")
        do_case(rec, case, one_request=(n % 2 == 0))
        n += 1
    for case in engine.wide_cases(rng, 8 if tier == "quick" else 60):
        rec.count("wide_cases")
        do_case(rec, case, one_request=(n % 2 == 0))
        n += 1
    for case in engine.high_order_cases(rng, 6 if tier == "quick" else 60):
        rec.count("high_order_cases")
        do_case(rec, case, one_request=(n % 2 == 0))
        n += 1
    for case in engine.huge_dim_cases(rng, 10 if tier == "quick" else 80):
        rec.count("huge_dimension_cases")
        do_case(rec, case, one_request=(n % 2 == 0))
        n += 1
    # every output format of a few simple shapes (engine.output_exhaustive_cases)
    for case in engine.output_exhaustive_cases(rng, index, n_shards, draws=2 if tier == "quick" else 8, light_order4=(tier == "quick")):
        rec.count("every_output_format_cases")
        do_case(rec, case, one_request=(n % 2 == 0))
        n += 1
    # bounded-exhaustive small shapes (engine.small_shapes): a seeded third in quick, all in thorough
    third = 1 if tier == "thorough" else 6
    for case in engine.small_shape_cases(rng, index + n_shards * (rec.seed % third), n_shards * third, draws=3, out_modes=("s", "d")):
        rec.count("small_shape_cases")
        do_case(rec, case, one_request=(n % 2 == 0))
        n += 1


def start_default_capacity_leg():
    """Growth at the default initial capacity (2^20): verif/big_child.py in its own process, in parallel
    with the shards (kernels through the LLVM JIT with more than 2^20 stored output entries)."""
    import os
    import subprocess
    import sys

    from ..common import ROOT, work_dir

    wd = work_dir("c05big")
    out = os.path.join(wd, "big.json")
    env = dict(os.environ)
    env.pop("TENSORA_VERIF_INITIAL_CAPACITY", None)
    env["PYTHONHASHSEED"] = "0"
    env["PYTHONFAULTHANDLER"] = "1"
    p = subprocess.Popen([sys.executable, os.path.join(ROOT, "verif", "big_child.py"), out], env=env, cwd=wd,
                         stdout=subprocess.PIPE, stderr=subprocess.STDOUT)
    return p, out, wd


def finish_default_capacity_leg(run, big):
    import subprocess

    from ..common import rm_tree

    p, out, wd = big
    try:
        try:
            log, _ = p.communicate(timeout=3600)
        except subprocess.TimeoutExpired:
            p.kill()
            p.wait()
            run.inconclusive_because("the default-capacity growth leg hit the wall-clock watchdog")
            return
        tail = log.decode(errors="replace")[-600:]
        if p.returncode != 0:
            if p.returncode < 0:
                run.violation("default-capacity-growth:process-died", {"signal": -p.returncode, "output_tail": tail})
            else:
                run.inconclusive_because(f"the default-capacity growth leg exited {p.returncode}: {tail[-300:]}")
            return
        d = json.load(open(out))
        for c in d["cases"]:
            run.evaluated()
            run.count("default_capacity_growth_kernels")
            run.counters["max_stored_entries_in_one_output"] = max(run.counters.get("max_stored_entries_in_one_output", 0), c["stored_entries"])
            run.nontrivial("default-capacity:" + c["case"])
        for pr in d["problems"]:
            run.evaluated()
            run.violation("default-capacity-growth:" + ("malformed:" + pr["malformed"] if "malformed" in pr else "wrong-result"), pr)
        if len(d["cases"]) + len(d["problems"]) < 6:
            run.inconclusive_because("the default-capacity growth leg ran fewer kernels than planned")
    finally:
        rm_tree(wd)


def main(tier):
    run = Run(PID, tier, LEVEL, RULE)
    bad = controls.all_fired(controls.irvm_controls()) + controls.all_fired(controls.validator_controls())
    for b in bad:
        run.inconclusive_because(f"positive control did not fire: {b}")
    run.counters["positive_controls_fired"] = 18 - len(bad)
    plan = PLAN[tier]
    big = start_default_capacity_leg()
    run_shards(run, "c05", plan["shards"], timeout_s=3600 if tier == "quick" else 7200)
    from . import c05_native

    c05_native.run_native(run, tier)
    finish_default_capacity_leg(run, big)
    if run.counters.get("kernels_evaluate", 0) < 1000:
        run.inconclusive_because("too few kernels ran")
    if run.counters.get("realloc_grow", 0) < 100:
        run.inconclusive_because("the capacity-growth branch was not exercised")
    from .. import contracts_leg

    if tier == "thorough":
        contracts_leg.run(run, PID, tier)
    run.assumptions += [
        "the abstract machine models malloc/realloc with exact-size blocks and no slack; forming a pointer past a block "
        "without dereferencing it, realloc(p, 0) and int->double promotion on store are deliberately not flagged",
        "'terminates' is restated as a step budget of 200000 + 2000*(volume + stored entries), >100x the largest legitimate kernel observed",
        "element counts are far below 2^31: overflow near the 32-bit limit is only checked by the int32 range monitor on small values",
    ]
    return run.finish()


def replay(path):
    d = json.load(open(path))
    w = d["witness"]
    case = engine.case_from_description(w["case"])
    rec = Run(PID, "quick", LEVEL, RULE)
    do_case(rec, case)
    print("replay:", json.dumps(rec.violations)[:800])
    if rec.violations:
        print(f"VIOLATION property={PID} replay={path}")
        return 1
    return 0
