"""C12 - assignment and format text round-trips and means what arithmetic says.

Oracles: (1) totality - the parsers return Success|Failure on any string, never raise;
(2) round trip - parse(deparse(t)) == t; (3) meaning - the tree evaluates, at random rational
points, to what PYTHON's own expression parser makes of the same text (an independent parser for
precedence, associativity and parentheses); (4) the three documented rejections and invalid
orderings yield their specific typed Failure."""

from __future__ import annotations

import json
import random
import re
from fractions import Fraction

from .. import gen, taco
from ..common import Run, run_shards

PID = "C12"
LEVEL = "exploration"
RULE = ("strings = random unicode/ASCII text, token soup over the grammar alphabet and mutated valid sentences (totality); "
        "sentences/trees = seeded random assignments of depth <= 5 with every literal spelling (0, 007, 1.5, 1e5, 1E+5, 2.5e-3, "
        "exponent-form values), random extra parentheses and spaces (round trip + meaning at 3 random rational points against "
        "Python's expression parser); all 443 formats of order <= 4 and named formats; every rejection rule; non-trivial = the "
        "sentence parsed and contains >= 1 operator; distinct by text")

LITS = ["0", "1", "2", "7", "007", "10", "1.5", "0.5", "2.0", "1e5", "1E+5", "2.5e-3", "3e0", "12.25", "1e22", "1e-7", "123456789", "0.1", "4.0e2"]
ALPHABET = list("abAB ij,()+-*=019.eE") + ["  ", "a(", "(i)", "b(i,j)", "1.5", "=", "é", "\n", "\t", "_", "1e5", "d", "s", ":"]


def random_sentence(rng, depth=None):
    names = ["b", "c", "D", "e2", "Tt"]
    idx = ["i", "j", "k", "l"]
    orders = {n: rng.choice([0, 1, 2]) for n in names}

    def tree(d):
        if d <= 0 or rng.random() < 0.25:
            if rng.random() < 0.3:
                return ("n", rng.choice(LITS))
            n = rng.choice(names)
            return ("t", n, tuple(rng.sample(idx, orders[n])))
        op = rng.choice("++-**")
        return (op, tree(d - 1), tree(d - 1))

    e = tree(depth if depth is not None else rng.randint(1, 5))
    used = gen.indexes_of(e)
    tgt = ("t", "a", tuple(rng.sample(used, rng.randint(0, min(2, len(used))))))
    return tgt, e


def chain_sentence(rng):
    """A long FLAT chain: 2..40 terms joined by + and - (or by one operator only), each term a chain of
    1..4 factors joined by *; the tree it must parse to is the left fold (operators of equal precedence
    associate to the left), however long the chain is."""
    names = ["b", "c", "D", "e2", "Tt", "f", "g"]
    idx = ["i", "j", "k"]
    orders = {n: rng.choice([0, 1, 2]) for n in names}

    def leaf():
        if rng.random() < 0.2:
            return ("n", rng.choice(LITS))
        n = rng.choice(names)
        return ("t", n, tuple(rng.sample(idx, orders[n])))

    n_terms = rng.choice([2, 3, 5, 8, 9, 10, 12, 16, 17, 24, 33, 40, 64, 100, 101, 102, 129, 200, 257])
    style = rng.choice(["+", "-", "mixed", "mixed", "*"])
    if style == "*":
        e = leaf()
        for _ in range(n_terms - 1):
            e = ("*", e, leaf())
    else:
        def term():
            t = leaf()
            for _ in range(rng.choice([0, 0, 0, 1, 2, 3])):
                t = ("*", t, leaf())
            return t

        e = term()
        for _ in range(n_terms - 1):
            op = style if style in "+-" else rng.choice("+-")
            e = (op, e, term())
    used = gen.indexes_of(e)
    tgt = ("t", "a", tuple(rng.sample(used, rng.randint(0, min(2, len(used))))))
    return tgt, e


def decorate(rng, e):
    """Text of a tree with random redundant parentheses and spaces (must parse to the same tree)."""
    k = e[0]
    if k == "t":
        sp = rng.choice(["", " "])
        return f"{e[1]}({(',' + sp).join(e[2])})"
    if k == "n":
        return e[1]
    l, r = e[1], e[2]
    ls, rs = decorate(rng, l), decorate(rng, r)
    if k in "+-":
        if r[0] in "+-":
            rs = f"({rs})"
    else:
        if l[0] in "+-":
            ls = f"({ls})"
        if r[0] in "+-*":
            rs = f"({rs})"
    if rng.random() < 0.15:
        ls = f"({ls})"
    if rng.random() < 0.15:
        rs = f"({rs})"
    sp = rng.choice(["", " ", "  "])
    s = f"{ls}{sp}{k}{sp}{rs}"
    return f"({s})" if rng.random() < 0.1 else s


def to_surface(e):
    from tensora.expression import ast as S

    if e[0] == "t":
        return S.Tensor(e[1], tuple(e[2]))
    if e[0] == "n":
        txt = e[1]
        if re.fullmatch(r"[0-9]+", txt):
            return S.Integer(int(txt))
        return S.Float(float(txt))
    cls = {"+": S.Add, "-": S.Subtract, "*": S.Multiply}[e[0]]
    return cls(to_surface(e[1]), to_surface(e[2]))


def walk(node, env):
    """10-line evaluator of a tensora surface tree over Fractions."""
    from tensora.expression import ast as S

    if isinstance(node, S.Tensor):
        return env[(node.name, tuple(node.indexes))]
    if isinstance(node, (S.Integer, S.Float)):
        return Fraction(node.value)
    l, r = walk(node.left, env), walk(node.right, env)
    if isinstance(node, S.Add):
        return l + r
    if isinstance(node, S.Subtract):
        return l - r
    if isinstance(node, S.Multiply):
        return l * r
    raise TypeError(type(node).__name__)


_ref = re.compile(r"([A-Za-z][A-Za-z0-9]*)\s*\(([^()]*)\)")
_num = re.compile(r"(?<![A-Za-z0-9_.])(\d+(?:\.\d+)?(?:[eE][+-]?\d+)?)")


def python_meaning(rhs_text, env_values):
    """Evaluate the right-hand side text with Python's own parser: tensor references become
    identifiers, literals become Fractions of the value tensora's lexer would read."""
    refs = {}

    def ref(m):
        key = (m.group(1), tuple(x.strip() for x in m.group(2).split(",") if x.strip()))
        refs.setdefault(key, f"V{len(refs)}")
        return refs[key]

    text = _ref.sub(ref, rhs_text)

    def num(m):
        t = m.group(1)
        if re.fullmatch(r"[0-9]+", t):
            return f"F({int(t)})"
        return f"F({float(t)!r})"

    text = _num.sub(num, text)
    return text, refs


def classify_exception(exc, text):
    """K13 interpreter-limit classifier."""
    depth = 0
    mx = 0
    for ch in text:
        if ch == "(":
            depth += 1
            mx = max(mx, depth)
        elif ch == ")":
            depth -= 1
    ops = sum(text.count(c) for c in "+-*")
    if isinstance(exc, RecursionError) and (mx >= 60 or ops >= 300):
        return "interpreter-limits"
    if isinstance(exc, ValueError) and re.search(r"\d{4301,}", text) and "4300" in str(exc):
        return "interpreter-limits"
    return None


def total(rec, fn, text, what):
    """Call a parser; any raise is a violation (or the known interpreter-limit finding)."""
    from returns.result import Failure, Success

    rec.evaluated()
    rec.count(f"totality_{what}")
    try:
        r = fn(text)
    except BaseException as exc:  # noqa: BLE001
        known = classify_exception(exc, text)
        rec.violation(f"parser-raised:{type(exc).__name__}" + (":" + known if known else ""),
                      {"parser": what, "text": text[:200], "length": len(text), "error": str(exc)[:100]}, known)
        return None
    if not isinstance(r, (Success, Failure)):
        rec.violation("parser-returned-non-result", {"parser": what, "text": text[:200], "got": repr(r)[:100]})
        return None
    return r


def shard(rec, tier, index, n_shards):
    from returns.result import Failure, Success
    from tensora.expression import parse_assignment
    from tensora.expression import ast as S
    from tensora.expression._exceptions import InconsistentDimensionsError, MutatingAssignmentError, NameConflictError
    from tensora.format import Format, InvalidModeOrderingError, Mode, parse_format, parse_named_format

    rng = random.Random(f"C12-{rec.seed}-{index}")
    n_strings = (60000 if tier == "quick" else 1_500_000) // n_shards
    n_sent = (24000 if tier == "quick" else 400_000) // n_shards

    # (1) totality
    for k in range(n_strings):
        c = k % 4
        if c == 0:
            text = "".join(rng.choice(ALPHABET) for _ in range(rng.randint(0, 25)))
        elif c == 1:
            text = "".join(chr(rng.choice([rng.randint(32, 126), rng.randint(0, 0x2FF), rng.randint(0x3000, 0x30FF)])) for _ in range(rng.randint(0, 15)))
        else:
            tgt, e = random_sentence(rng, 2)
            text = gen.show_assignment(tgt, e)
            if text:
                pos = rng.randrange(len(text))
                op = rng.random()
                if op < 0.4:
                    text = text[:pos] + text[pos + 1:]
                elif op < 0.8:
                    text = text[:pos] + rng.choice(ALPHABET) + text[pos:]
                else:
                    text = text[:pos] + rng.choice(ALPHABET) + text[pos + 1:]
        p = k % 3
        if p == 0:
            total(rec, parse_assignment, text, "assignment")
        elif p == 1:
            total(rec, parse_format, text if c < 2 else "".join(rng.choice("ds0123 x") for _ in range(rng.randint(0, 8))), "format")
        else:
            total(rec, parse_named_format, text if c < 2 else rng.choice(["A", "b_1", "_", "9", ""]) + rng.choice([":", "", " :"]) + "".join(rng.choice("ds012") for _ in range(rng.randint(0, 6))), "named_format")

    # (2)+(3) sentences
    for k in range(n_sent):
        if k % 8 == 3:
            tgt, e = chain_sentence(rng)
            rec.count("long_flat_chains")
        else:
            tgt, e = random_sentence(rng)
        rhs = decorate(rng, e)
        text = f"{gen.show(tgt)} = {rhs}"
        r = total(rec, parse_assignment, text, "assignment")
        if r is None:
            continue
        want_tree = S.Assignment(to_surface(tgt), to_surface(e)) if True else None
        if not isinstance(r, Success):
            rec.violation("valid-sentence-rejected", {"text": text, "failure": str(r.failure())[:200]})
            continue
        tree = r.unwrap()
        rec.count("sentences_parsed")
        if tree != want_tree:
            rec.violation("tree-differs-from-generated-tree", {"text": text, "got": repr(tree)[:300], "want": repr(want_tree)[:300]})
            continue
        # round trip
        try:
            printed = tree.deparse()
            again = parse_assignment(printed)
        except BaseException as exc:  # noqa: BLE001
            rec.violation(f"deparse-or-reparse-raised:{type(exc).__name__}", {"text": text})
            continue
        if not isinstance(again, Success) or again.unwrap() != tree:
            rec.violation("round-trip-changes-tree", {"text": text, "printed": printed, "reparsed": repr(again)[:300]})
            continue
        rec.count("round_trips")
        # meaning at 3 random points, against Python's parser
        ptext, refs = python_meaning(rhs, None)
        ok = True
        for _ in range(3):
            env = {key: Fraction(rng.randint(-9, 9), rng.randint(1, 5)) for key in refs}
            ns = {name: env[key] for key, name in refs.items()}
            ns["F"] = Fraction
            try:
                want = eval(ptext, {"__builtins__": {}}, ns)  # noqa: S307 - generated text, independent parser
            except Exception as exc:  # noqa: BLE001
                rec.inconclusive_because(f"python could not evaluate generated text {ptext!r}: {exc}")
                ok = False
                break
            got = walk(tree.expression, env)
            if got != want:
                rec.violation("meaning-differs-from-conventional-arithmetic", {"text": text, "python_text": ptext, "tensora": str(got), "python": str(want)})
                ok = False
                break
        if ok:
            rec.count("meaning_checks")
            if e[0] in "+-*":
                rec.nontrivial(text)
        if k < 2:
            rec.sample({"text": text, "python_text": ptext, "printed": printed})

    # formats: all 443 of order <= 4 (every shard does a slice)
    fmts = []
    for n in range(5):
        fmts.extend(taco.all_formats(n))
    for modes, ordering in fmts[index::n_shards]:
        rec.evaluated()
        f = Format(tuple(Mode.dense if m == "d" else Mode.compressed for m in modes), tuple(ordering))
        for text in {f.deparse(), taco.fmt_text(modes, ordering), "".join(f"{m}{o}" for m, o in zip(modes, ordering))}:
            r = total(rec, parse_format, text, "format")
            if r is None:
                continue
            if not isinstance(r, Success) or r.unwrap() != f:
                rec.violation("format-round-trip", {"text": text, "got": repr(r)[:200]})
            r2 = total(rec, parse_named_format, "Name_1:" + text, "named_format")
            if r2 is not None and (not isinstance(r2, Success) or r2.unwrap() != ("Name_1", f)):
                rec.violation("named-format-round-trip", {"text": text, "got": repr(r2)[:200]})
        rec.count("formats_round_tripped")
        rec.nontrivial("fmt:" + taco.fmt_text(modes, ordering))
        # an invalid ordering of the same modes
        if len(modes) >= 1:
            bad = list(ordering)
            bad[0] = len(modes) if len(modes) == 1 else bad[1]
            text = "".join(f"{m}{o}" for m, o in zip(modes, bad))
            r = total(rec, parse_format, text, "format")
            if r is not None and not (isinstance(r, Failure) and isinstance(r.failure(), InvalidModeOrderingError)):
                rec.violation("invalid-ordering-not-rejected-with-InvalidModeOrderingError", {"text": text, "got": repr(r)[:200]})
            rec.count("invalid_orderings_rejected")

    # (4) rejections: the offending name is placed at EVERY kind of position - any occurrence of any
    # tensor (first or later occurrence of a repeated tensor), any index position, colliding with the
    # target or with any right-hand-side tensor
    def occurrences(e, path=()):
        if e[0] == "t":
            yield path, e
        elif e[0] != "n":
            yield from occurrences(e[1], path + (1,))
            yield from occurrences(e[2], path + (2,))

    def replace_at(e, path, new):
        if not path:
            return new
        l = list(e)
        l[path[0]] = replace_at(e[path[0]], path[1:], new)
        return tuple(l)

    for k in range(600 if tier == "quick" else 8000):
        tgt, e = random_sentence(rng, rng.randint(1, 3))
        occ = list(occurrences(e))
        if not occ:
            continue
        # make sure some tensor occurs at least twice: duplicate one reference with permuted indexes
        pth, ref = rng.choice(occ)
        dup = ("t", ref[1], tuple(rng.sample(ref[2], len(ref[2]))))
        e = (rng.choice("+-*"), e, dup) if rng.random() < 0.5 else (rng.choice("+-*"), dup, e)
        occ = list(occurrences(e))
        names = [tgt[1]] + list(gen.tensors_of(e))
        kind = k % 3
        pth, ref = rng.choice(occ)
        if kind == 0:  # the target reused at any occurrence
            e2 = replace_at(e, pth, ("t", tgt[1], ref[2]))
            text, want = gen.show_assignment(tgt, e2), MutatingAssignmentError
        elif kind == 1:  # one tensor with two orders: change the order of one occurrence of a repeated tensor
            multi = [(p_, r_) for p_, r_ in occ if len(gen.tensors_of(e)[r_[1]]) >= 2]
            pth, ref = rng.choice(multi)
            new_idx = ref[2] + ("zz",) if rng.random() < 0.5 or not ref[2] else ref[2][:-1]
            e2 = replace_at(e, pth, ("t", ref[1], new_idx))
            text, want = gen.show_assignment(tgt, e2), InconsistentDimensionsError
        else:  # a tensor name used as an index at any position of any occurrence
            cands = [(p_, r_) for p_, r_ in occ if len(r_[2]) >= 1]
            if not cands:
                continue
            pth, ref = rng.choice(cands)
            pos = rng.randrange(len(ref[2]))
            idx = list(ref[2])
            idx[pos] = rng.choice(names)
            e2 = replace_at(e, pth, ("t", ref[1], tuple(idx)))
            text, want = gen.show_assignment(tgt, e2), NameConflictError
        r = total(rec, parse_assignment, text, "assignment")
        if r is None:
            continue
        if not (isinstance(r, Failure) and isinstance(r.failure(), want)):
            # a different documented rejection may legitimately take precedence; an accepted sentence never
            if isinstance(r, Failure) and isinstance(r.failure(), (MutatingAssignmentError, InconsistentDimensionsError, NameConflictError)):
                rec.count("rejections_with_another_documented_error")
            else:
                rec.violation(f"not-rejected-with-{want.__name__}", {"text": text, "got": repr(r)[:200]})
        else:
            rec.count("rejections_typed")
            rec.countd("rejection_kinds", want.__name__)

    # literal classes with known findings: non-finite floats / interpreter limits (one probe each per shard 0)
    if index == 0:
        for text in ["a(i) = 1e999 * b(i)", "a() = 2 * 1e400"]:
            r = total(rec, parse_assignment, text, "assignment")
            if r is not None and isinstance(r, Success):
                printed = r.unwrap().deparse()
                again = parse_assignment(printed)
                if not isinstance(again, Success) or again.unwrap() != r.unwrap():
                    rec.violation("round-trip-changes-tree:non-finite-literal", {"text": text, "printed": printed}, "non-finite-literal")
        total(rec, parse_assignment, "a(i) = " + "(" * 150 + "b(i)" + ")" * 150, "assignment")
        total(rec, parse_assignment, "a(i) = " + " + ".join(["b(i)"] * 1500), "assignment")
        total(rec, parse_assignment, "a(i) = " + "9" * 5000 + " * b(i)", "assignment")
        # far below the limits any raise is a violation
        total(rec, parse_assignment, "a(i) = " + "(" * 20 + "b(i)" + ")" * 20, "assignment")
        total(rec, parse_assignment, "a(i) = " + " + ".join(["b(i)"] * 100), "assignment")
        total(rec, parse_assignment, "a(i) = " + "9" * 400 + " * b(i)", "assignment")


def main(tier):
    run = Run(PID, tier, LEVEL, RULE)
    # positive control of the meaning oracle: a right-folded tree must be caught
    from tensora.expression import ast as S

    wrong = S.Subtract(S.Tensor("b", ()), S.Subtract(S.Tensor("c", ()), S.Tensor("d", ())))
    env = {("b", ()): Fraction(5), ("c", ()): Fraction(3), ("d", ()): Fraction(1)}
    ptext, refs = python_meaning("b() - c() - d()", None)
    ns = {name: env[key] for key, name in refs.items()}
    if walk(wrong, env) == eval(ptext, {"__builtins__": {}}, ns):  # noqa: S307
        run.inconclusive_because("positive control did not fire: meaning oracle accepts a right fold of a - b - c")
    run_shards(run, "c12", 12 if tier == "quick" else 16, timeout_s=3600 if tier == "quick" else 14400)
    c = run.counters
    if c.get("meaning_checks", 0) < 5000 or c.get("formats_round_tripped", 0) != 443 or c.get("rejections_typed", 0) < 500:
        run.inconclusive_because(f"too little was observed: {c.get('meaning_checks', 0)} meaning checks, {c.get('formats_round_tripped', 0)} formats, {c.get('rejections_typed', 0)} rejections")
    run.assumptions += [
        "Python's expression grammar is the conventional meaning of + - * and parentheses; literals are read as the float/int their text denotes",
        "trees are generated with non-negative finite literals only (the grammar has no unary minus)",
    ]
    return run.finish()


def replay(path):
    d = json.load(open(path))
    print("replay witness:", json.dumps(d["witness"])[:800])
    return 0
