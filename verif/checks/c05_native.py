"""Native sanitizer legs of C05 (emitted C under ASan+UBSan; LLVM JIT under valgrind)."""


def run_native(run, tier):
    run.counters["native_legs"] = "not built yet"
