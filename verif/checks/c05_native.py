"""Native sanitizer legs of C05: emitted C under gcc ASan+UBSan (generated driver, one process per
case) and the LLVM JIT path under valgrind memcheck."""

from __future__ import annotations

import json
import os
import random
import re
import subprocess
import sys

from .. import cdrv, engine, gen, irvm, native, sweep, taco
from ..common import ROOT, rm_tree, work_dir

PLAN = {
    "quick": dict(asan_cases=160, batch=28, valgrind_cases=60, msan_items=112),
    "thorough": dict(asan_cases=2400, batch=60, valgrind_cases=1500, msan_items=4800),
}


def pick_cases(rng, n, capacities=(1, 2, 3, 5, 16)):
    """Cases with a kernel whose abstract-machine run is clean (violations are C05's irvm leg)."""
    out = []
    tries = 0
    while len(out) < n and tries < n * 8:
        tries += 1
        if tries % 3 == 0:
            target, tree = gen.random_assignment(rng, allow_broadcast_target=False)
        else:
            target, tree = gen.parse(rng.choice(gen.CURATED))
        case = engine.build_case(rng, target, tree, None, capacity=rng.choice(capacities), origin="native")
        k = sweep.observe_kinds(case)
        if k.status != "ran" or any(o is None or o.violation is not None or o.malformed is not None for o in (k.evaluate, k.assemble, k.compute)):
            continue
        out.append((case, k))
    return out


class Valgrind:
    def __init__(self, run, tier, wd, cases):
        self.run = run
        self.wd = wd
        self.n = len(cases)
        self.procs = []
        chunk = max(1, (len(cases) + 5) // 6) if tier == "quick" else max(1, (len(cases) + 11) // 12)
        for k in range(0, len(cases), chunk):
            sp = os.path.join(wd, f"vg{k}.json")
            op = os.path.join(wd, f"vgout{k}.json")
            xml = os.path.join(wd, f"vg{k}.xml")
            json.dump({"cases": [c.describe() for c, _ in cases[k : k + chunk]]}, open(sp, "w"))
            env = dict(os.environ)
            env.update({"PYTHONMALLOC": "malloc", "PYTHONHASHSEED": "0", "PYTHONPATH": ROOT + os.pathsep + env.get("PYTHONPATH", "")})
            cmd = ["valgrind", "--tool=memcheck", "--error-exitcode=97", "--leak-check=no", "--undef-value-errors=yes", "--xml=yes",
                   f"--xml-file={xml}", "--child-silent-after-fork=yes", "-q", sys.executable, os.path.join(ROOT, "verif", "vg_child.py"), sp, op]
            p = subprocess.Popen(cmd, env=env, stdout=subprocess.PIPE, stderr=subprocess.STDOUT, cwd=wd)
            self.procs.append((p, op, xml, k))

    def finish(self, timeout):
        run = self.run
        for p, op, xml, k in self.procs:
            try:
                out, _ = p.communicate(timeout=timeout)
            except subprocess.TimeoutExpired:
                p.kill()
                run.inconclusive_because("valgrind batch hit the wall-clock watchdog")
                continue
            errors = []
            if os.path.exists(xml):
                text = open(xml, errors="replace").read()
                for m in re.finditer(r"<error>.*?</error>", text, re.S):
                    blk = m.group(0)
                    kind = re.search(r"<kind>(.*?)</kind>", blk)
                    what = re.search(r"<what>(.*?)</what>", blk) or re.search(r"<text>(.*?)</text>", blk)
                    frames = re.findall(r"<fn>(.*?)</fn>", blk)[:6]
                    objs = re.findall(r"<obj>(.*?)</obj>", blk)[:6]
                    if kind and kind.group(1).startswith("Leak_"):
                        continue  # leaks are C13's subject; CPython itself "leaks" at exit
                    errors.append({"kind": kind.group(1) if kind else "?", "what": what.group(1) if what else "", "frames": frames, "objects": objs})
            if os.path.exists(op):
                r = json.load(open(op))
                run.count("valgrind_jit_kernel_runs", r["ran"])
                run.evaluated(r["ran"])
                for m in r["malformed"]:
                    run.violation("jit-output-malformed-under-valgrind", m)
            elif p.returncode not in (0, 97):
                tail = out.decode(errors="replace")[-400:]
                if p.returncode < 0:
                    run.violation("process-died-under-valgrind", {"signal": -p.returncode, "tail": tail})
                else:
                    run.inconclusive_because(f"valgrind batch failed ({p.returncode}): {tail}")
            run.count("valgrind_error_reports", len(errors))
            for e in errors:
                # errors whose stack has no symbolised frame in a shared object come from JIT-compiled code
                run.violation(f"valgrind:{e['kind']}", e)


def run_native(run, tier):
    plan = PLAN[tier]
    rng = random.Random(f"C05-native-{run.seed}")
    wd = work_dir("c05n")
    try:
        picked = pick_cases(rng, plan["asan_cases"])
        vg = None
        if plan["valgrind_cases"]:
            vg = Valgrind(run, tier, wd, picked[: plan["valgrind_cases"]])
        from tensora.codegen import ir_to_c

        items = []
        for case, k in picked:
            spec = native.tensor_specs(case, k.problem)
            code = ir_to_c(k.module)
            items.append((case, cdrv.NativeCase(code, spec, ["evaluate"])))
            spec2 = native.tensor_specs(case, k.problem)
            items.append((case, cdrv.NativeCase(code, spec2, ["assemble", "compute"])))
        b = plan["batch"]
        from concurrent.futures import ThreadPoolExecutor

        def do_chunk(i, sanitizer="asan"):
            chunk = items[i : i + b]
            exe, err = cdrv.build_binary([c for _, c in chunk], wd, f"{sanitizer}{i}", sanitizer)
            if exe is None:
                return [("build-failed", err, None, None)]
            res = []
            for j, (case, nc) in enumerate(chunk):
                st, dump, errtail = cdrv.run_case(exe, j)
                res.append((st, dump, errtail, (case, nc)))
            return res

        with ThreadPoolExecutor(max_workers=12) as pool:
            results = list(pool.map(do_chunk, range(0, len(items), b)))
        for res in results:
            if res and res[0][0] == "build-failed":
                run.inconclusive_because(f"ASan driver did not compile: {res[0][1][-300:]}")
                continue
            run.count("asan_binaries")
            for st, dump, errtail, (case, nc) in res:
                run.evaluated()
                run.count("asan_ubsan_kernel_runs", len(nc.calls))
                if st == "timeout":
                    run.inconclusive_because("an ASan case hit the wall-clock watchdog")
                elif st != "ok":
                    m = re.search(r"(AddressSanitizer|UndefinedBehaviorSanitizer|runtime error): ?([a-zA-Z0-9 _-]+)", errtail)
                    run.violation(f"emitted-c:{st}:{m.group(2).strip()[:40] if m else ''}", {"calls": nc.calls, "case": case.describe(), "stderr": errtail[-800:]})
                else:
                    if any(c["inputs_unchanged"] is False for c in dump):
                        run.violation("emitted-c:input-modified", {"calls": nc.calls, "case": case.describe()})
                    if any(c["ret"] != 0 for c in dump):
                        run.violation("emitted-c:nonzero-return", {"calls": nc.calls, "case": case.describe()})
                    run.nontrivial(hash((case.key(), tuple(nc.calls), "asan")))
        # MemorySanitizer leg (clang): the binary links only libc, so every dependency is instrumented;
        # every described cell is printed by the driver, so an uninitialised stored cell is reported
        n_msan = plan["msan_items"]
        with ThreadPoolExecutor(max_workers=12) as pool:
            mres = list(pool.map(lambda i: do_chunk(i, "msan"), range(0, min(len(items), n_msan), b)))
        for res in mres:
            if res and res[0][0] == "build-failed":
                run.inconclusive_because(f"MSan driver did not compile: {res[0][1][-300:]}")
                continue
            for st, dump, errtail, (case, nc) in res:
                run.evaluated()
                run.count("msan_kernel_runs", len(nc.calls))
                if st == "timeout":
                    run.inconclusive_because("an MSan case hit the wall-clock watchdog")
                elif st != "ok":
                    run.violation(f"emitted-c-msan:{st}", {"calls": nc.calls, "case": case.describe(), "stderr": errtail[-800:]})
        if vg is not None:
            vg.finish(3600 if tier == "quick" else 6 * 3600)
        if run.counters.get("asan_ubsan_kernel_runs", 0) < 100:
            run.inconclusive_because("the ASan+UBSan leg observed too few kernel runs")
        if plan["valgrind_cases"] and run.counters.get("valgrind_jit_kernel_runs", 0) < 30:
            run.inconclusive_because("the valgrind leg observed too few kernel runs")
    finally:
        rm_tree(wd)
