"""C08 - kernel generation is total: code, or one of the documented refusals.

Observed at generate_code / generate_module_tensora / tensor_method / the CLI (typer CliRunner and a
real subprocess sample).  Oracle: Success(code) or Failure(DiagonalAccessError|NoKernelFoundError)
(BroadcastTargetIndexError for callable kernels); no other exception; a logical call budget instead
of "never hangs"; emitted C accepted by gcc -std=c11 -pedantic-errors under the published header;
emitted LLVM accepted by llvmlite parse_assembly + verify."""

from __future__ import annotations

import itertools
import json
import os
import random
import subprocess
import sys

from .. import budget, cdrv, engine, gen, taco
from ..common import ROOT, Run, rm_tree, run_shards, work_dir

PID = "C08"
LEVEL = "exploration"
RULE = ("requests = curated shapes x sampled (quick) / all (thorough, total order <= 6) format assignments x kind subsets "
        "{e},{a},{c},{a,c},{a,c,e} x {c,llvm} + random-grammar assignments + diagonal accesses + identifier spellings (letters, mixed "
        "case, digits, long, generated-name stems) + C reserved words/libc names (known finding) through generate_code, tensor_method "
        "and the CLI; every emitted C module syntax-checked by gcc, every LLVM module parsed and verified; non-trivial = code was "
        "produced and accepted by its tool chain; distinct by request")

C_RESERVED = ["int", "while", "if", "else", "double", "return", "for", "restrict", "void", "char", "long", "float", "do", "static",
              "struct", "bool", "true", "false", "malloc", "realloc", "free", "NULL", "main0"]
SAFE_SPELLINGS = ["x", "Y", "aB", "t1", "q9z", "LongTensorNameNumber1", "vals", "pos", "crd", "evaluate", "compute", "assemble",
                  "p", "dim", "bucket", "written", "capacity", "end", "TACO", "taco", "order", "dimensions", "indices", "Z"]
GENERATED_STEMS = ["p", "i", "written", "bucket", "pos", "crd", "vals", "dim", "capacity", "end"]
KINDSETS = [("evaluate",), ("assemble",), ("compute",), ("assemble", "compute"), ("assemble", "compute", "evaluate")]
DOCUMENTED = ("DiagonalAccessError", "NoKernelFoundError")
CALL_BUDGET = 1_000_000_000


def rename_tree(target, tree, tmap, imap):
    def ren(x):
        if x[0] == "t":
            return ("t", tmap.get(x[1], x[1]), tuple(imap.get(i, i) for i in x[2]))
        if x[0] == "n":
            return x
        return (x[0], ren(x[1]), ren(x[2]))

    return ren(target), ren(tree)


def branch_chain_recursion(exc):
    """Whether a RecursionError was raised while recursing along ONE chain of `else if` arms (Branch
    nodes nested in if_false): >= 80 % of the tensora frames of the traceback handle a Branch."""
    if not isinstance(exc, RecursionError):
        return False
    tb = exc.__traceback__
    branch = other = 0
    while tb is not None:
        co = tb.tb_frame.f_code
        if os.sep + "tensora" + os.sep in co.co_filename:
            if "branch" in co.co_name.lower():
                branch += 1
            else:
                other += 1
        tb = tb.tb_next
    return branch >= 100 and branch >= 4 * other


def classify(text, formats, exc_name, retry, exc=None):
    """Known-finding classifiers (mechanism: a syntactic predicate + a counterfactual replay)."""
    import re

    if exc is not None and branch_chain_recursion(exc):
        # mechanism: one `else if` arm per subset of co-iterated sparse references; with >= 9 references
        # the chain is deeper than CPython's recursion limit.  Counterfactual: the same request with
        # every operand dense (no merge lattice) is served.
        target, tree = gen.parse(text)
        n_refs = sum(len(v) for v in gen.tensors_of(tree).values())
        dense = {n: "d" * len(taco.parse_fmt(f)[0]) for n, f in formats.items()}
        if n_refs >= 9 and retry(text, dense):
            return "else-if-chain-exceeds-recursion-limit"
    names = set(re.findall(r"[A-Za-z][A-Za-z0-9]*", text))
    if names & set(C_RESERVED):
        target, tree = gen.parse(text)
        tn = [target[1]] + list(gen.tensors_of(tree))
        ins = []
        for i in list(target[2]) + gen.indexes_of(tree):
            if i not in ins:
                ins.append(i)
        tmap = {n: f"T{k}" for k, n in enumerate(tn)}
        imap = {n: f"x{k}" for k, n in enumerate(ins)}
        t2, e2 = rename_tree(target, tree, tmap, imap)
        f2 = {tmap[n]: f for n, f in formats.items()}
        if retry(gen.show_assignment(t2, e2), f2):
            return "identifier-collides-with-c-or-libc"
    if names & set(GENERATED_STEMS):
        target, tree = gen.parse(text)
        tn = [target[1]] + list(gen.tensors_of(tree))
        ins = []
        for i in list(target[2]) + gen.indexes_of(tree):
            if i not in ins:
                ins.append(i)
        tmap = {n: f"T{k}" for k, n in enumerate(tn)}
        imap = {n: f"x{k}" for k, n in enumerate(ins)}
        t2, e2 = rename_tree(target, tree, tmap, imap)
        f2 = {tmap[n]: f for n, f in formats.items()}
        if retry(gen.show_assignment(t2, e2), f2):
            return "identifier-collides-with-generated-name"
    lits = re.findall(r"(?<![A-Za-z0-9_.])(\d+(?:\.\d+)?(?:[eE][+-]?\d+)?)", text)
    big = []
    for l in lits:
        try:
            v = float(l)
            if v in (float("inf"),) or v != v:
                big.append(l)
        except OverflowError:
            big.append(l)
    if big:
        t2 = text
        for l in sorted(set(big), key=len, reverse=True):
            t2 = t2.replace(l, "2.0")
        if retry(t2, formats):
            return "non-finite-or-huge-literal"
    return None


class Batch:
    """Collects emitted modules for the tool-chain oracles."""

    def __init__(self, rec, wd):
        self.rec = rec
        self.wd = wd
        self.c = []

    def add_c(self, code, request):
        self.c.append((code, request))
        if len(self.c) >= 100:
            self.flush()

    def flush(self):
        if not self.c:
            return
        bad = cdrv.syntax_check([c for c, _ in self.c], self.wd)
        self.rec.count("c_modules_syntax_checked", len(self.c))
        badset = {i for i, _ in bad}
        for i, err in bad:
            code, request = self.c[i]

            def retry(text, formats, request=request):
                r = generate(text, formats, request["kinds"], "c")
                return r[0] == "code" and not cdrv.syntax_check([r[1]], self.wd)

            known = classify(request["assignment"], request["formats"], "gcc", retry)
            self.rec.violation("emitted-c-rejected-by-gcc" + (":" + known if known else ""), {"request": request, "gcc": err[-400:]}, known)
        for i, (code, request) in enumerate(self.c):
            if i not in badset:
                self.rec.nontrivial(json.dumps(request, sort_keys=True))
        self.c = []


def generate(text, formats, kinds, language):
    """-> ('code', text) | ('refused', name) | ('raised', exc) | ('hang', None)"""
    from returns.result import Failure, Success
    from tensora.expression import parse_assignment
    from tensora.format import parse_format
    from tensora.generate import Language, generate_code
    from tensora.kernel_type import KernelType
    from tensora.problem import make_problem

    try:
        a = parse_assignment(text).unwrap()
        fm = {n: parse_format(f).unwrap() for n, f in formats.items()}
        p = make_problem(a, fm).unwrap()
    except Exception as exc:  # noqa: BLE001
        return ("bad-request", exc)
    try:
        with budget.CallBudget(CALL_BUDGET) as b:
            r = generate_code(p, [KernelType[k] for k in kinds], Language[language])
    except budget.BudgetExceeded:
        return ("hang", None)
    except Exception as exc:  # noqa: BLE001
        return ("raised", exc)
    if isinstance(r, Success):
        return ("code", r.unwrap(), b.count)
    err = r.failure()
    if type(err).__name__ in DOCUMENTED:
        return ("refused", type(err).__name__)
    return ("raised", err)


def one_request(rec, batch, text, formats, kinds, language, klass):
    request = {"assignment": text, "formats": formats, "kinds": list(kinds), "language": language, "class": klass}
    rec.evaluated()
    rec.countd("request_classes", klass)
    r = generate(text, formats, kinds, language)
    if r[0] == "bad-request":
        rec.count("harness_bad_request")
        return
    if r[0] == "refused":
        rec.countd("refusals", r[1])
        return
    if r[0] == "hang":
        rec.violation("generator-exceeded-call-budget", {"request": request, "budget": CALL_BUDGET})
        return
    if r[0] == "raised":
        exc = r[1]

        def retry(t2, f2):
            return generate(t2, f2, kinds, language)[0] in ("code", "refused")

        known = classify(text, formats, type(exc).__name__, retry, exc)
        rec.violation(f"generation-raised:{type(exc).__name__}" + (":" + known if known else ""),
                      {"request": request, "error": str(exc)[:200]}, known)
        return
    code = r[1]
    rec.counters["max_generator_calls"] = max(rec.counters.get("max_generator_calls", 0), r[2])
    rec.count("code_produced")
    if language == "c":
        batch.add_c(code, request)
    else:
        import llvmlite.binding as llvm

        try:
            m = llvm.parse_assembly(code)
            m.verify()
            rec.count("llvm_modules_verified")
            rec.nontrivial(json.dumps(request, sort_keys=True))
        except Exception as exc:  # noqa: BLE001
            def retry(t2, f2):
                g = generate(t2, f2, kinds, language)
                if g[0] != "code":
                    return False
                try:
                    llvm.parse_assembly(g[1]).verify()
                    return True
                except Exception:  # noqa: BLE001
                    return False

            known = classify(text, formats, "llvm", retry)
            rec.violation("emitted-llvm-rejected" + (":" + known if known else ""), {"request": request, "error": str(exc)[:300]}, known)


def cli_request(rec, text, formats, kinds, language, real=False):
    """CLI: exit 0 with code, or 1 with a message; never a traceback / foreign exception."""
    request = {"assignment": text, "formats": formats, "kinds": list(kinds), "language": language, "class": "cli"}
    args = [text]
    for n, f in formats.items():
        args += ["-f", f"{n}:{f}"]
    for k in kinds:
        args += ["-t", k]
    args += ["-l", language]
    rec.evaluated()
    if real:
        env = dict(os.environ)
        r = subprocess.run([sys.executable, "-c", "from tensora.cli import app; app()", *args], capture_output=True, text=True, timeout=120, env=env)
        rec.count("cli_real_subprocess")
        code, out, err, exc = r.returncode, r.stdout, r.stderr, None
        tb = "Traceback (most recent call last)" in err
    else:
        from typer.testing import CliRunner
        from tensora.cli import app

        res = CliRunner().invoke(app, args, catch_exceptions=True)
        rec.count("cli_runner")
        code, out, exc = res.exit_code, res.stdout, res.exception
        try:
            err = res.stderr
        except Exception:  # noqa: BLE001
            err = ""
        tb = exc is not None and not isinstance(exc, SystemExit)

    def retry(t2, f2):
        return generate(t2, f2, kinds, language)[0] in ("code", "refused")

    if tb or code not in (0, 1):
        known = classify(text, formats, "cli", retry, exc)
        rec.violation("cli-traceback-or-bad-exit" + (":" + known if known else ""),
                      {"request": request, "exit": code, "exception": repr(exc)[:200], "stderr": (err or "")[-300:]}, known)
        return
    if code == 0 and not out.strip():
        rec.violation("cli-exit-0-without-code", {"request": request})
        return
    if code == 1 and not (err or out).strip():
        rec.violation("cli-exit-1-without-message", {"request": request})
        return
    rec.countd("cli_exits", code)


def all_format_assignments(orders, rng, limit):
    names = list(orders)
    spaces = [taco.all_formats(orders[n]) for n in names]
    total = 1
    for s in spaces:
        total *= len(s)
    if total <= limit:
        for combo in itertools.product(*spaces):
            yield {n: taco.fmt_text(*f) for n, f in zip(names, combo)}, True
    else:
        for _ in range(limit):
            yield {n: taco.fmt_text(*rng.choice(s)) for n, s in zip(names, spaces)}, False


def shard(rec, tier, index, n_shards):
    rng = random.Random(f"C08-{rec.seed}-{index}")
    wd = work_dir("c08")
    batch = Batch(rec, wd)
    try:
        per_shape = 40 if tier == "quick" else 20000
        shapes = list(gen.CURATED) + list(gen.BROADCAST) + ["a(i) = B(i,i)", "A(i,j) = B(i,j) * c(i,i)", "a() = B(j,j)"]
        n = 0
        for text in shapes[index::n_shards]:
            target, tree = gen.parse(text)
            orders = {target[1]: len(target[2])}
            for nme, refs in gen.tensors_of(tree).items():
                orders[nme] = len(refs[0])
            for formats, exhaustive in all_format_assignments(orders, rng, per_shape):
                kinds = KINDSETS[n % len(KINDSETS)]
                lang = "c" if n % 3 else "llvm"
                one_request(rec, batch, text, formats, kinds, lang, "curated-exhaustive-formats" if exhaustive else "curated-sampled-formats")
                if n % 25 == 0:
                    cli_request(rec, text, formats, kinds, lang)
                n += 1
        # random grammar
        for _ in range((1500 if tier == "quick" else 60000) // n_shards):
            target, tree = gen.random_assignment(rng, allow_broadcast_target=True)
            if rng.random() < 0.05:
                # a diagonal access: must be refused with DiagonalAccessError
                refs = [x for x in gen.tensors_of(tree).items() if len(x[1][0]) >= 2]
                if refs:
                    nme, rl = refs[0]
                    tree = ("*", tree, ("t", nme, tuple([rl[0][0]] * len(rl[0]))))
            text = gen.show_assignment(target, tree)
            formats = gen.random_formats(rng, gen.tensor_orders(target, tree))
            formats = {target[1]: formats[target[1]], **{k: formats[k] for k in gen.tensors_of(tree)}}
            kinds = rng.choice(KINDSETS)
            lang = rng.choice(["c", "c", "llvm"])
            one_request(rec, batch, text, formats, kinds, lang, "random-grammar")
            if n % 40 == 0:
                cli_request(rec, text, formats, kinds, lang)
            n += 1
        # identifier spellings
        for k in range((300 if tier == "quick" else 6000) // n_shards):
            target, tree = gen.parse(rng.choice(gen.CURATED[:60]))
            tn = [target[1]] + list(gen.tensors_of(tree))
            ins = []
            for i in list(target[2]) + gen.indexes_of(tree):
                if i not in ins:
                    ins.append(i)
            reserved = k % 3 == 0
            pool = list(SAFE_SPELLINGS)
            rng.shuffle(pool)
            names = pool[: len(tn) + len(ins)]
            if reserved:
                names[rng.randrange(len(names))] = rng.choice(C_RESERVED)
            tmap = dict(zip(tn, names[: len(tn)]))
            imap = dict(zip(ins, names[len(tn):]))
            t2, e2 = rename_tree(target, tree, tmap, imap)
            text = gen.show_assignment(t2, e2)
            orders = gen.tensor_orders(t2, e2)
            fm = gen.random_formats(rng, orders, sparse_bias=0.3)
            formats = {t2[1]: fm[t2[1]], **{x: fm[x] for x in gen.tensors_of(e2)}}
            lang = "c" if k % 2 else "llvm"
            one_request(rec, batch, text, formats, ("evaluate",), lang, "identifier-reserved" if reserved else "identifier-spelling")
            if reserved and k % 6 == 0:
                cli_request(rec, text, formats, ("evaluate",), lang)
        # literal classes
        if index == 0:
            for text in ["a(i) = 1e999 * b(i)", "a(i) = b(i) + 1e400", "a(i) = " + "9" * 400 + " * b(i)", "a(i) = 99999999999 * b(i)",
                         "a(i) = 2147483648 * b(i)", "a(i) = 65536 * 65536 * b(i)", "a(i) = 0.0 * b(i)", "a(i) = 1e308 * b(i)", "a(i) = 1e-320 * b(i)",
                         # finite literals whose combination is not finite (nothing may fold them into a non-finite constant)
                         "a(i) = 1e200 * 1e200 * b(i)", "a(i) = b(i) * (1e308 + 1e308)", "a(i) = 4e307 * 5 * b(i)", "a(i) = 1e200 * 1e200 * b(i) - 1e200 * 1e200 * b(i)",
                         "a(i) = (0 - 1e308 - 1e308) * b(i)", "a(i) = 1e-200 * 1e-200 * b(i)", "a(i) = 3 * 7 * b(i) + 2 * 5"]:
                for lang in ("c", "llvm"):
                    one_request(rec, batch, text, {"a": "d", "b": "s"}, ("evaluate",), lang, "literal")
                cli_request(rec, text, {"a": "d", "b": "s"}, ("evaluate",), "c")
            for text, fm, lang in [("pos() = p(indices) * bucket(indices)", {"pos": "", "p": "s", "bucket": "s"}, "c"),
                                   ("crd() = bucket(p,x)", {"crd": "", "bucket": "sd"}, "llvm")]:
                one_request(rec, batch, text, fm, ("evaluate",), lang, "identifier-generated-stem")
            for real_text, fm in [("A(i,j) = B(i,k) * C(k,j)", {"A": "ds", "B": "ds", "C": "ds"}), ("a(i) = B(i,i)", {"a": "d", "B": "ds"}),
                                  ("A(i,j,k) = B(j,i,k)", {"A": "dds", "B": "dss"}), ("a(i) = b(i) +", {"a": "d"}),
                                  ("A(i,j) = B(i,j) + C(j,i)", {"A": "ss", "B": "ss", "C": "ss"})]:
                cli_request(rec, real_text, fm, ("assemble", "compute"), "c", real=True)
            rec.sample({"assignment": "A(i,k) = B(i,j) * C(j,k)", "formats": {"A": "ds", "B": "d1s0", "C": "ss"}, "kinds": ["assemble", "compute"], "language": "c"})
        # order 4: EVERY output format (384) of permuted copies and of two contractions, inputs all-compressed
        # and all-dense in natural order (which iteration orders are legal depends on the output's modes and
        # ordering against the index permutation)
        o4 = ["A(i,j,k,l) = B(i,j,k,l)", "A(i,j,k,l) = B(i,k,j,l)", "A(i,j,k,l) = B(j,i,l,k)", "A(i,j,k,l) = B(l,k,j,i)", "A(i,j,k,l) = B(k,l,i,j)",
              "A(i,j,k,l) = B(i,j,k,l) + C(i,k,j,l)", "A(i,j,k,l) = B(i,j,m) * C(m,k,l)", "A(i,j,k,l) = B(l,i) * C(j,k)"]
        k4 = 0
        for text in o4:
            target, tree = gen.parse(text)
            orders = gen.tensor_orders(target, tree)
            for out_fmt in taco.all_formats(4):
                for inp in "sd":
                    k4 += 1
                    if k4 % n_shards != index:
                        continue
                    if tier == "quick" and (k4 // n_shards) % 2 and text not in o4[:3]:
                        continue  # quick: the three plain permutations completely, half of the rest
                    fm = {nme: inp * o for nme, o in orders.items()}
                    fm[target[1]] = taco.fmt_text(*out_fmt)
                    fm = {target[1]: fm[target[1]], **{x: fm[x] for x in gen.tensors_of(tree)}}
                    one_request(rec, batch, text, fm, KINDSETS[k4 % len(KINDSETS)], "c" if k4 % 3 else "llvm", "order-4-every-output-format")
        # many co-iterated sparse operands: the kernel has one `else if` arm per subset of them
        many = [(6, "+", "c"), (9, "+", "c"), (7, "*", "llvm"), (12, "*", "c")] if tier == "quick" else \
               [(6, "+", "c"), (7, "+", "llvm"), (9, "+", "c"), (9, "+", "llvm"), (10, "+", "c"), (12, "*", "c"), (16, "*", "llvm")]
        for k, (n_ops, op, lang) in enumerate(many):
            if k % n_shards != (index + 5) % n_shards:
                continue
            names = [f"t{j}" for j in range(n_ops)]
            text = "a(i) = " + f" {op} ".join(f"{x}(i)" for x in names)
            fm = {"a": "s", **{x: "s" for x in names}}
            one_request(rec, batch, text, fm, ("evaluate",), lang, "many-sparse-operands")
            if n_ops == 9 and lang == "c":
                cli_request(rec, text, fm, ("evaluate",), lang)
        # callable kernels: tensor_method raises only documented errors
        from tensora import tensor_method
        from tensora.compile import BroadcastTargetIndexError
        from tensora.desugar import DiagonalAccessError, NoKernelFoundError

        for _ in range((150 if tier == "quick" else 4000) // n_shards):
            target, tree = gen.random_assignment(rng, allow_broadcast_target=True)
            text = gen.show_assignment(target, tree)
            fm = gen.random_formats(rng, gen.tensor_orders(target, tree))
            rec.evaluated()
            try:
                with budget.CallBudget(CALL_BUDGET):
                    tensor_method(text, fm)
                rec.count("tensor_methods_built")
            except (BroadcastTargetIndexError, DiagonalAccessError, NoKernelFoundError) as exc:
                rec.countd("tensor_method_refusals", type(exc).__name__)
            except budget.BudgetExceeded:
                rec.violation("tensor_method-exceeded-call-budget", {"assignment": text, "formats": fm})
            except Exception as exc:  # noqa: BLE001
                rec.violation(f"tensor_method-raised:{type(exc).__name__}", {"assignment": text, "formats": fm, "error": str(exc)[:200]})
        batch.flush()
    finally:
        rm_tree(wd)


def main(tier):
    run = Run(PID, tier, LEVEL, RULE)
    # positive control of the tool-chain oracle: broken C must be rejected
    wd = work_dir("c08ctl")
    try:
        if not cdrv.syntax_check(["int32_t evaluate(taco_tensor_t* restrict a) { int32_t int = 0; return 0; }"], wd):
            run.inconclusive_because("positive control did not fire: gcc accepted a reserved word as identifier")
        if cdrv.syntax_check(["int32_t evaluate(taco_tensor_t* restrict a) { int32_t x = TACO_MIN(1, 2); return a->dimensions[0] - x; }"], wd):
            run.inconclusive_because("positive control: gcc rejected a valid kernel under the published header")
    finally:
        rm_tree(wd)
    run_shards(run, "c08", 12 if tier == "quick" else 16, timeout_s=3600 if tier == "quick" else 6 * 3600)
    c = run.counters
    if c.get("code_produced", 0) < 1500 or c.get("c_modules_syntax_checked", 0) < 800 or c.get("llvm_modules_verified", 0) < 300:
        run.inconclusive_because("too little code was produced and checked")
    if c.get("cli_runner", 0) < 50 or c.get("cli_real_subprocess", 0) < 3:
        run.inconclusive_because("CLI probes did not run")
    run.assumptions += [
        "'never hangs' is restated as a budget of 1e9 Python function calls per request (largest observed is in counters.max_generator_calls)",
        "formats have matching orders by construction; make_problem failures are outside the property",
    ]
    return run.finish()


def replay(path):
    d = json.load(open(path))
    w = d["witness"]
    rq = w.get("request")
    if rq:
        r = generate(rq["assignment"], rq["formats"], rq["kinds"], rq["language"])
        print("replay:", r[0], repr(r[1])[:300])
        if r[0] in ("raised", "hang"):
            print(f"VIOLATION property={PID} replay={path}")
            return 1
    return 0
