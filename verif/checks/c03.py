"""C03 - sparse outputs store no phantom coordinates.

Oracle: for each compressed output level l, the set of stored level-order prefixes of length l+1
(decoded from the raw arrays) must be a subset of the prefixes of the structural support computed
by refsem from the inputs' *stored* coordinate sets in their own formats (a dense input level
stores every coordinate; a stored explicit zero is support)."""

from __future__ import annotations

import json
import random

from .. import controls, engine, gen, sweep, taco
from ..common import Run, run_shards
from .c02 import sparse_output_formats

PID = "C03"
LEVEL = "exploration"
RULE = ("cases = curated + random-grammar assignments with >= 1 compressed output level x random input formats x inputs biased "
        "to all-empty operands, empty rows, disjoint contractions, operands absent on one side of a sum, stored explicit zeros x "
        "capacities; evaluate and assemble kernels on the abstract machine, a sample through the LLVM JIT; non-trivial = the "
        "support is a proper subset of the output space at some compressed level (so a phantom was possible) ; distinct by case")

PLAN = {
    "quick": dict(shards=12, fmt=8, inp=3, rnd=1300, draws=3, jit_every=4, lattice=240),
    "thorough": dict(shards=16, fmt=60, inp=4, rnd=20000, draws=4, jit_every=2, lattice=4800),
}


def sparse_inputs(rng, case):
    """Re-draw inputs with a bias to emptiness (empty operands, empty rows, stored zeros)."""
    dims = engine.input_dims(case)
    for n in case.inputs:
        r = rng.random()
        if r < 0.2:
            case.inputs[n] = {}
        elif r < 0.6:
            case.inputs[n] = gen.random_entries(rng, dims[n], density=rng.choice([0.15, 0.3, 0.5]), explicit_zero_p=0.2)
    return case


def judge(rec, o, case, tag):
    if o is None or o.status != "ran" or o.violation is not None or o.malformed is not None or o.raw is None:
        if o is not None and o.status == "unsupported":
            rec.inconclusive_because(f"IR abstract machine met an unknown node: {o.reason}")
        return
    dims, modes, ordering, indices, vals = o.raw
    if "s" not in modes:
        return
    rec.evaluated()
    rec.count(f"{tag}_judged")
    j = sweep.c03_judge(o)
    c = o.counters
    if c is not None:
        rec.count("gate_suppressed_coordinate", c.gate_false)
        rec.count("gate_stored_coordinate", c.gate_true)
    if j is not None:
        rec.violation(j[0], {"executor": tag, "case": case.describe(), **j[1], "raw_indices": repr(indices)[:300]})
        return
    # non-trivial: some compressed level could have stored more than the support allows
    vol = 1
    for d in dims:
        vol *= d
    stored = engine.stored_full(case)
    from .. import refsem

    sup = refsem.support(o.problem.assignment, stored, case.sizes)
    if len(sup) < vol:
        rec.nontrivial(hash((case.key(), tag)))


def shard(rec, tier, index, n_shards):
    plan = PLAN[tier]
    rng = random.Random(f"C03-{rec.seed}-{index}")
    cache = {}
    n = 0

    def do(case):
        nonlocal n
        n += 1
        case = sparse_inputs(rng, case)
        k = sweep.observe_kinds(case, one_request=(n % 2 == 0))
        if k.status != "ran":
            rec.count(k.status)
            return
        judge(rec, k.evaluate, case, "irvm-evaluate")
        judge(rec, k.assemble, case, "irvm-assemble")
        if n <= 1:
            rec.sample({"case": case.describe(), "raw_output": repr(k.evaluate.raw)[:400]})
        if n % plan["jit_every"] == 0 and k.evaluate.violation is None:
            oj = sweep.observe_jit(case, cache)
            if oj.status == "ran":
                judge(rec, oj, case, "jit")
        if len(cache) > 300:
            cache.clear()

    shapes = list(gen.CURATED) + list(gen.BROADCAST)
    for text in shapes[index::n_shards]:
        target, tree = gen.parse(text)
        orders = gen.tensor_orders(target, tree)
        if orders[target[1]] == 0:
            continue
        for k_, formats in enumerate(gen.format_plan(rng, orders, plan["fmt"], target=target[1])):
            for _ in range(plan["inp"] * (4 if k_ == 0 else 1)):  # the all-compressed assignment gets more inputs
                do(engine.build_case(rng, target, tree, formats, origin="curated"))
    for _ in range(plan["rnd"] // n_shards):
        target, tree = gen.random_assignment(rng, allow_broadcast_target=True)
        orders = gen.tensor_orders(target, tree)
        if orders[target[1]] == 0:
            continue
        for _ in range(plan["draws"]):
            formats = sparse_output_formats(rng, orders, target[1])
            do(engine.build_case(rng, target, tree, formats, origin="random"))
    for case in engine.lattice_cases(rng, plan["lattice"] // n_shards, 3):
        if "s" not in case.formats[case.target[1]]:
            continue
        rec.count("lattice_cases")
        do(case)
    # bounded-exhaustive small shapes (engine.small_shapes): a seeded third in quick, all in thorough
    third = 1 if tier == "thorough" else 3
    for case in engine.small_shape_cases(rng, index + n_shards * (rec.seed % third), n_shards * third, draws=3):
        rec.count("small_shape_cases")
        do(case)


def positive_control():
    """A structure with a stored coordinate outside the support must be rejected."""
    rng = random.Random(5)
    target, tree = gen.parse("a(i) = b(i) * c(i)")
    case = engine.build_case(rng, target, tree, {"a": "s", "b": "s", "c": "s"}, capacity=None, sizes_pool=[4])
    case.inputs = {"b": {(0,): 1.0, (2,): 1.0}, "c": {(2,): 2.0, (3,): 1.0}}
    o = sweep.observe_irvm(case)
    if o.status != "ran" or o.raw is None or sweep.c03_judge(o) is not None:
        return False
    dims, modes, ordering, indices, vals = o.raw
    o.raw = (dims, modes, ordering, [[[0, 2], [0, 2]]], [0.0, 2.0])
    return sweep.c03_judge(o) is not None


def main(tier):
    run = Run(PID, tier, LEVEL, RULE)
    bad = controls.all_fired(controls.irvm_controls()) + controls.all_fired(controls.validator_controls())
    if not positive_control():
        bad.append("phantom-oracle")
    for b in bad:
        run.inconclusive_because(f"positive control did not fire: {b}")
    run.counters["positive_controls_fired"] = 19 - len(bad)
    plan = PLAN[tier]
    run_shards(run, "c03", plan["shards"], timeout_s=3600 if tier == "quick" else 7200)
    if run.counters.get("irvm-evaluate_judged", 0) < 800:
        run.inconclusive_because("too few sparse outputs were judged")
    if run.counters.get("gate_suppressed_coordinate", 0) < 100:
        run.inconclusive_because("the written-flag gate never suppressed a coordinate: the workload did not exercise it")
    from .. import contracts_leg

    if tier == "thorough":
        contracts_leg.run(run, PID, tier)
    run.assumptions += [
        "support = refsem over the inputs' stored sets (dense levels store every coordinate, explicit zeros count, literals are everywhere)",
        "the check is an upper bound only: storing fewer coordinates than the support is not a violation",
    ]
    return run.finish()


def replay(path):
    d = json.load(open(path))
    case = engine.case_from_description(d["witness"]["case"])
    rec = Run(PID, "quick", LEVEL, RULE)
    k = sweep.observe_kinds(case)
    if k.status == "ran":
        judge(rec, k.evaluate, case, "irvm-evaluate")
        judge(rec, k.assemble, case, "irvm-assemble")
    print("replay:", json.dumps(rec.violations)[:800])
    if rec.violations:
        print(f"VIOLATION property={PID} replay={path}")
        return 1
    return 0
