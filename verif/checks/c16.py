"""C16 - work follows sparsity, not dimension size.

Observed: loop-body executions of the evaluate kernel on the IR abstract machine.  For every index
meeting the property's precondition (decided syntactically from the request) the same stored
entries are run with that dimension enlarged x1, x10, x1000, x10000; the totals must be identical.
Indexes failing the precondition are the negative control (some must show growth)."""

from __future__ import annotations

import json
import dataclasses as _dc
import random

from .. import controls, engine, gen, refsem, sweep, taco
from ..common import Run, run_shards

PID = "C16"
LEVEL = "exploration"
RULE = ("(problem, formats, inputs, qualifying index group) pairs from curated + random-grammar assignments with sparse-biased "
        "formats; each run at scales x1,x10,x1000,x10000 of the qualifying dimension with identical stored entries; "
        "non-trivial = the kernel executed >= 1 loop iteration and an input stores an entry; distinct by (case, index)")

SCALES = (1, 10, 1000, 10000)
PLAN = {
    "quick": dict(shards=12, fmt=14, inp=1, rnd=1500, draws=2),
    "thorough": dict(shards=16, fmt=120, inp=2, rnd=24000, draws=3),
}


def index_groups(case):
    """Indexes forced to share a size (a tensor used with two index lists) form one group."""
    idxs = []
    for i in list(case.target[2]) + gen.indexes_of(case.tree):
        if i not in idxs:
            idxs.append(i)
    parent = {i: i for i in idxs}

    def find(x):
        while parent[x] != x:
            x = parent[x]
        return x

    for _n, refs in gen.tensors_of(case.tree).items():
        for ref in refs[1:]:
            for a, b in zip(refs[0], ref):
                ra, rb = find(a), find(b)
                if ra != rb:
                    parent[rb] = ra
    groups = {}
    for i in idxs:
        groups.setdefault(find(i), []).append(i)
    return list(groups.values())


def qualifies(case, problem, x):
    """Every operand and the output store x only in compressed levels (or lack it), and every
    additive term of the expanded right-hand side mentions x."""
    refs = [(case.target[1], case.target[2])]
    for n, rl in gen.tensors_of(case.tree).items():
        for r in rl:
            refs.append((n, r))
    for name, idx in refs:
        modes, ordering = taco.parse_fmt(case.formats[name])
        for level, dim in enumerate(ordering):
            if idx[dim] == x and modes[level] != "s":
                return False
    for _coef, factors in refsem.expand(problem.assignment.expression):
        if x not in refsem.term_indexes(factors):
            return False
    return True


def loops_at(case, problem, module, group, scale):
    sizes = dict(case.sizes)
    for x in group:
        sizes[x] = sizes[x] * scale
    c2 = _dc.replace(case, sizes=sizes)
    res, _ = engine.run_function(c2, problem, module.definitions[-1])
    return res.counters.loop_iters, res.counters.steps


def do_case(rec, case):
    case.capacity = 16
    try:
        problem = engine.make_problem(case)
        module = engine.generate_module(problem, ("evaluate",), case.capacity)
    except engine.Refused:
        rec.count("refused")
        return
    except engine.InternalError:
        rec.count("generation_error_not_judged_here")
        return
    from .. import irvm

    for group in index_groups(case):
        if any(case.sizes[x] == 0 for x in group):
            continue
        q = all(qualifies(case, problem, x) for x in group)
        try:
            base = loops_at(case, problem, module, group, 1)
            if q:
                rec.evaluated()
                rec.count("qualifying_pairs")
                for s in SCALES[1:]:
                    got = loops_at(case, problem, module, group, s)
                    rec.count("scaled_runs")
                    if got[0] != base[0]:
                        rec.violation("loop-iterations-grow-with-dimension",
                                      {"case": case.describe(), "index": group, "scale": s, "loop_iterations_x1": base[0],
                                       "loop_iterations_scaled": got[0]})
                        break
                else:
                    rec.count("constant_pairs")
                    if base[0] > 0 and any(len(v) for v in case.inputs.values()):
                        rec.nontrivial(hash((case.key(), tuple(group))))
                    if rec.counters["constant_pairs"] <= 2:
                        rec.sample({"case": case.describe(), "index": group, "loop_iterations_at_every_scale": base[0]})
            else:
                # negative control: only x10 (a dense dimension x10000 would be huge)
                got = loops_at(case, problem, module, group, 10)
                rec.count("nonqualifying_pairs")
                if got[0] > base[0]:
                    rec.count("nonqualifying_pairs_that_grow")
        except irvm.Unsupported as u:
            rec.inconclusive_because(f"IR abstract machine met an unknown node: {u}")
        except irvm.IRViolation as v:
            rec.count("kernel_violation_not_judged_here")
            rec.countd("kernel_violation_kinds", v.kind)


NEIGHBOURHOOD_SHAPES = ["A(i,k) = B(i,j) * C(k,j) + D(i,k)", "A(i,k) = B(i,j) * C(j,k) + D(i,k)", "A(i,k) = D(i,k) + B(i,j) * C(k,j)",
                        "a(i) = B(i,j) * c(j) + d(i)", "A(i,j) = B(i,j) * c(j) + D(i,j)", "a(i) = b(i) * (c(i) + 1)", "a(i) = (c(i) + 1) * b(i)",
                        "A(i,j) = B(i,j) * (c(i) + d(j))", "A(i,j) = B(i,k) * C(k,j)", "a(i) = B(i,j) * C(i,j)", "A(i,j) = B(i,j) + C(i,j)",
                        "A(i,j) = B(i,j) * C(i,j) + D(i,j)", "a(i) = B(i,j) * c(j) - D(i,k) * e(k)", "A(i,j,k) = B(i,j,k) + C(i,j,k)",
                        "A(i,k) = B(i,j) * C(k,j) - D(i,l) * E(l,k)", "a() = B(i,j) * C(i,j) + d(i)"]


def sparse_formats(rng, orders):
    return gen.random_formats(rng, orders, sparse_bias=0.8)


def shard(rec, tier, index, n_shards):
    plan = PLAN[tier]
    rng = random.Random(f"C16-{rec.seed}-{index}")
    sizes_pool = [1, 2, 3, 3, 4]
    for text in list(gen.CURATED)[index::n_shards]:
        target, tree = gen.parse(text)
        orders = gen.tensor_orders(target, tree)
        for _ in range(plan["fmt"]):
            formats = sparse_formats(rng, orders)
            for _ in range(plan["inp"]):
                do_case(rec, engine.build_case(rng, target, tree, formats, origin="curated", sizes_pool=sizes_pool))
    for _ in range(plan["rnd"] // n_shards):
        target, tree = gen.random_assignment(rng, allow_broadcast_target=False)
        orders = gen.tensor_orders(target, tree)
        for _ in range(plan["draws"]):
            do_case(rec, engine.build_case(rng, target, tree, sparse_formats(rng, orders), origin="random", sizes_pool=sizes_pool))
    # the neighbourhood of "everything compressed": for shapes mixing sums, contractions and broadcast factors, the
    # all-compressed assignment and EVERY assignment with exactly one level of one tensor dense (the other indexes
    # still qualify), each on inputs with empty rows/columns - where an exhausted operand leaves a loop without
    # sparse leaves, which must not fall back to counting up to the dimension
    k = 0
    for text in NEIGHBOURHOOD_SHAPES:
        target, tree = gen.parse(text)
        orders = gen.tensor_orders(target, tree)
        variants = [{n: "s" * o for n, o in orders.items()}]
        for n, o in orders.items():
            for l in range(o):
                v = {m: "s" * oo for m, oo in orders.items()}
                v[n] = "s" * l + "d" + "s" * (o - l - 1)
                variants.append(v)
        for v in variants:
            k += 1
            if k % n_shards != index:
                continue
            for d in range(3 if tier == "quick" else 8):
                case = engine.build_case(rng, target, tree, dict(v), origin="neighbourhood", sizes_pool=[3, 4, 5])
                dims = engine.input_dims(case)
                for n in case.inputs:
                    # some leading slices entirely empty, the rest about half full
                    keep = {x for x in range(dims[n][0]) if rng.random() < 0.6} if dims[n] else set()
                    case.inputs[n] = {c: val for c, val in gen.random_entries(rng, dims[n], density=0.5).items() if not c or c[0] in keep}
                rec.count("neighbourhood_cases")
                do_case(rec, case)


def main(tier):
    run = Run(PID, tier, LEVEL, RULE)
    bad = controls.all_fired(controls.irvm_controls())
    for b in bad:
        run.inconclusive_because(f"positive control did not fire: {b}")
    plan = PLAN[tier]
    run_shards(run, "c16", plan["shards"], timeout_s=3600 if tier == "quick" else 7200)
    if run.counters.get("qualifying_pairs", 0) < 300:
        run.inconclusive_because("too few qualifying (problem, index) pairs")
    if run.counters.get("nonqualifying_pairs_that_grow", 0) < 50:
        run.inconclusive_because("negative control: no non-qualifying index showed growth, the loop counter may not be measuring")
    run.assumptions += [
        "the precondition is decided from the request text and formats (compressed-or-absent in every reference, mentioned by every term of the expansion)",
        "work = loop-body executions counted by the abstract machine; comparison is between runs, never against stored numbers",
    ]
    return run.finish()


def replay(path):
    d = json.load(open(path))
    case = engine.case_from_description(d["witness"]["case"])
    rec = Run(PID, "quick", LEVEL, RULE)
    do_case(rec, case)
    print("replay:", json.dumps(rec.violations)[:800])
    if rec.violations:
        print(f"VIOLATION property={PID} replay={path}")
        return 1
    return 0
