"""C14 - concurrent evaluations behave like sequential ones.

History + model: the sequential specification is a pure function call -> result, so every
concurrent call's raw result must equal the same call made alone (before the threads start for
half of the cached calls, after them for the rest).  Interleavings are widened by a 1 us switch
interval and by yield injection (time.sleep(0)) from a sys.monitoring LINE callback restricted to
tensora/compile/*.py.  Each group of rounds runs in its own subprocess: a crash is a violation."""

from __future__ import annotations

import json
import os
import subprocess
import sys

from ..common import ROOT, Run, rm_tree, work_dir

PID = "C14"
LEVEL = "exploration"
RULE = ("histories = rounds of N in {2,4,8,16} threads, each issuing a mix of (a) one cached kernel with different inputs/dimensions, "
        "(b) one never-seen problem requested by all threads at once, (c) distinct never-seen problems, (d) cffi back end calls, "
        "(e) concurrent del/gc of earlier results, with seeded yield injection; every call compared with the same call alone; "
        "non-trivial = a call that overlapped another call in time; distinct by (process seed, op id)")


def main(tier):
    run = Run(PID, tier, LEVEL, RULE)
    wd = work_dir("c14")
    procs = []
    configs = []
    if tier == "quick":
        for k, n in enumerate([2, 4, 8, 16, 8, 16, 4, 16]):
            configs.append({"seed": run.seed * 1000 + k, "threads": n, "rounds": 5, "calls_per_thread": 10, "cffi": 3 if k < 6 else 0, "inject_p": 0.3,
                            "cffi_burst": 1 if k in (2, 3, 5) else 0})
    else:
        # sized so that the tier ends within ~15 minutes on 16 cores (the first sizing - 120 configurations of 12 rounds
        # x 30 calls per thread under LINE monitoring - did not finish within an hour)
        for s in range(2):
            for k, n in enumerate([2, 4, 8, 16] * 3):
                configs.append({"seed": run.seed * 100000 + s * 100 + k, "threads": n, "rounds": 8, "calls_per_thread": 20, "cffi": 6, "inject_p": 0.3,
                                "cffi_burst": 2 if k % 3 == 0 else 0})
    try:
        pending = list(enumerate(configs))
        running = []
        results = []
        max_par = 8
        import time

        while pending or running:
            while pending and len(running) < max_par:
                k, cfg = pending.pop(0)
                sp = os.path.join(wd, f"spec{k}.json")
                op = os.path.join(wd, f"out{k}.json")
                json.dump(cfg, open(sp, "w"))
                env = dict(os.environ)
                env["PYTHONHASHSEED"] = "0"
                env["PYTHONPATH"] = ROOT + os.pathsep + env.get("PYTHONPATH", "")
                env["PYTHONFAULTHANDLER"] = "1"
                p = subprocess.Popen([sys.executable, os.path.join(ROOT, "verif", "c14_child.py"), sp, op], env=env,
                                     stdout=subprocess.PIPE, stderr=subprocess.STDOUT, cwd=wd)
                running.append((p, op, cfg, time.time()))
            time.sleep(0.2)
            for item in list(running):
                p, op, cfg, t0 = item
                rc = p.poll()
                if rc is None:
                    if time.time() - t0 > (3600 if tier == "quick" else 4 * 3600):
                        p.kill()
                        p.wait()
                        run.inconclusive_because(f"child {cfg} hit the wall-clock watchdog (possible hang; inconclusive)")
                        running.remove(item)
                    continue
                running.remove(item)
                outp = p.stdout.read().decode(errors="replace")
                if rc != 0 or not os.path.exists(op):
                    if rc < 0:
                        run.violation("process-crashed", {"config": cfg, "signal": -rc, "output_tail": outp[-600:]})
                    else:
                        run.inconclusive_because(f"child {cfg} failed: {outp[-400:]}")
                    continue
                results.append((cfg, json.load(open(op))))
    finally:
        rm_tree(wd)
    sigs = set()
    for cfg, r in results:
        run.evaluated(r["calls"])
        run.count("calls", r["calls"])
        run.count("overlapping_call_pairs", r["overlapping_call_pairs"])
        run.count("overlapping_cache_miss_pairs", r["overlapping_cache_miss_pairs"])
        run.count("hook_points", r["hook_points"])
        run.count("yields_injected", r["yields_injected"])
        run.count("cffi_calls", r["cffi_calls"])
        run.counters["max_overlap_degree"] = max(run.counters.get("max_overlap_degree", 0), r["max_overlap_degree"])
        sigs.add(r["interleaving_signature"])
        for m in r["mismatches"]:
            run.violation("concurrent-result-differs-from-sequential", {"config": cfg, **m})
        for e in r["errors"]:
            if str(e["event"].get("error", "")).startswith("result differs from the reference"):
                run.violation("concurrent-result-differs-from-reference-semantics", {"config": cfg, **e})
            elif str(e.get("sequential", "ok")).startswith("ERR:"):
                run.violation("concurrent-call-differs-from-the-refusal-of-the-sequential-call", {"config": cfg, **e})
            else:
                run.violation("concurrent-call-raised-but-sequential-call-succeeds", {"config": cfg, **e})
        run.count("concurrent_refusals_equal_to_sequential", r.get("refusals_equal_to_sequential", 0))
        if r["sequential_errors"]:
            run.count("sequential_errors_not_judged_here", r["sequential_errors"])
        for k in range(min(r["overlapping_call_pairs"], r["calls"])):
            run.nontrivial((cfg["seed"], k))
        run.sample({"config": cfg, "history_head": r["sample_history"][:2]}, limit=2)
    run.counters["distinct_interleaving_signatures"] = len(sigs)
    run.counters["processes"] = len(results)
    if run.counters.get("overlapping_call_pairs", 0) < 500 or run.counters.get("overlapping_cache_miss_pairs", 0) < 20:
        run.inconclusive_because("too little overlap between calls was achieved")
    if run.counters.get("yields_injected", 0) < 1000:
        run.inconclusive_because("yield injection hook was not reached")
    run.assumptions += [
        "no controlled scheduler exists for CPython + native kernels: this is stress + yield injection, the evidence reports the overlap achieved; a race needing a schedule never produced is not found",
        "sleep(0) is injected only at statement starts of tensora/compile/*.py, where CPython may switch threads anyway",
    ]
    return run.finish()


def replay(path):
    d = json.load(open(path))
    print("replay witness:", json.dumps(d["witness"])[:800])
    return 0
