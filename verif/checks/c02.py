"""C02 - every returned tensor is a canonical, self-consistent stored tensor.

Observed at the raw arrays of the result: on the IR abstract machine heap (exact block lengths and
initialisation bits visible) after evaluate and after assemble(+compute), and at the cffi arrays of
the Tensor returned by the LLVM JIT path and by the arithmetic operators.  Oracle: the independent
validator taco.validate; follow-up uses (second kernel, to_format, pickle, ==) must not fail.
"""

from __future__ import annotations

import json
import pickle
import random

from .. import controls, engine, gen, sweep, taco
from ..common import Run, run_shards

PID = "C02"
LEVEL = "exploration"
RULE = ("cases = curated + random-grammar assignments whose output format has >= 1 compressed level (any position, any "
        "ordering) x random input formats x inputs with empty rows/tensors, stored zeros, dimension 0 x initial capacities "
        "{1,2,3,5,16,default}; outputs of evaluate and of assemble+compute validated on the abstract-machine heap and of the "
        "LLVM JIT/operators through raw cffi arrays; non-trivial = the output stores >= 1 position below a compressed level; "
        "distinct by (assignment, formats, sizes, inputs, capacity, executor)")

PLAN = {
    "quick": dict(shards=12, fmt=8, inp=2, rnd=1300, draws=2, jit_every=3, lattice=240),
    "thorough": dict(shards=16, fmt=60, inp=3, rnd=20000, draws=4, jit_every=2, lattice=4800),
}


def sparse_output_formats(rng, orders, target_name):
    for _ in range(20):
        f = gen.random_formats(rng, orders)
        if "s" in f[target_name] or orders[target_name] == 0:
            return f
    return f


def judge(rec, o, case, tag):
    if o is None or o.status != "ran":
        if o is not None and o.status == "unsupported":
            rec.inconclusive_because(f"IR abstract machine met an unknown node: {o.reason}")
        return False
    if o.violation is not None:
        rec.count(f"{tag}_execution_violation_not_judged_here")
        return False
    rec.evaluated()
    rec.count(f"{tag}_outputs_validated")
    if o.malformed is not None:
        rec.violation(f"malformed:{o.malformed.rule}", {"executor": tag, "detail": o.malformed.detail, "case": case.describe()})
        return False
    if o.raw is not None:
        dims, modes, ordering, indices, vals = o.raw
        if "s" in modes:
            stored = 0
            for l, m in enumerate(modes):
                if m == "s":
                    stored = max(stored, len(indices[l][1] or []))
            if stored:
                rec.nontrivial(hash((case.key(), tag)))
            if tag.startswith("irvm"):
                rec.count("irvm_exact_length_outputs" if engine.exact_lengths(o.raw) else "irvm_overlong_outputs")
    return True


def follow_up(rec, case, oj):
    """The JIT result must be usable: pickled, converted, compared, fed to another kernel."""
    t = oj.extra["tensor"]
    raw = oj.raw
    try:
        t2 = pickle.loads(pickle.dumps(t))
        raw2 = taco.read_raw(t2)
        if raw2 != raw:
            rec.violation("pickle-changes-structure", {"case": case.describe()})
        if not (t == t2):
            rec.violation("result-not-equal-to-its-pickle", {"case": case.describe()})
        dims, modes, ordering, indices, vals = raw
        order = len(dims)
        idx = ",".join("ijklmn"[:order])
        from tensora import evaluate

        fmt = taco.fmt_text(modes, ordering)
        back = evaluate(f"r({idx}) = t({idx})", fmt, t=t)
        rawb = taco.read_raw(back)
        dec_b = taco.validate(*rawb)
        want = {c: v for c, v in oj.decoded.items()}
        if {c: v for c, v in dec_b.items() if v != 0} != {c: v for c, v in want.items() if v != 0}:
            rec.violation("result-fed-to-copy-kernel-differs", {"case": case.describe()})
        dense = t.to_format("d" * order)
        dd = taco.validate(*taco.read_raw(dense))
        if {c: v for c, v in dd.items() if v != 0} != {c: v for c, v in want.items() if v != 0}:
            rec.violation("to_format-differs", {"case": case.describe()})
        rec.count("follow_up_uses_ok")
    except Exception as exc:  # noqa: BLE001
        rec.violation(f"follow-up-raised:{type(exc).__name__}", {"case": case.describe(), "error": str(exc)[:300]})


def shard(rec, tier, index, n_shards):
    plan = PLAN[tier]
    rng = random.Random(f"C02-{rec.seed}-{index}")
    cache = {}
    n = 0

    def do(case):
        nonlocal n
        n += 1
        k = sweep.observe_kinds(case, one_request=(n % 2 == 0))
        if k.status != "ran":
            rec.count(k.status)
            return
        ok = judge(rec, k.evaluate, case, "irvm-evaluate")
        judge(rec, k.assemble, case, "irvm-assemble")
        judge(rec, k.compute, case, "irvm-compute")
        if n <= 1:
            rec.sample({"case": case.describe(), "raw_output": repr(k.evaluate.raw)[:400]})
        if ok and n % plan["jit_every"] == 0:
            oj = sweep.observe_jit(case, cache)
            if oj.status == "ran":
                if judge(rec, oj, case, "jit") and n % (plan["jit_every"] * 4) == 0:
                    follow_up(rec, case, oj)
            else:
                rec.count(f"jit_{oj.status}")
        if len(cache) > 300:
            cache.clear()

    shapes = list(gen.CURATED) + list(gen.BROADCAST)
    for text in shapes[index::n_shards]:
        target, tree = gen.parse(text)
        orders = gen.tensor_orders(target, tree)
        if orders[target[1]] == 0:
            continue
        for k_, formats in enumerate(gen.format_plan(rng, orders, plan["fmt"], target=target[1])):
            for _ in range(plan["inp"] * (4 if k_ == 0 else 1)):  # the all-compressed assignment gets more inputs
                do(engine.build_case(rng, target, tree, formats, origin="curated"))
    for _ in range(plan["rnd"] // n_shards):
        target, tree = gen.random_assignment(rng, allow_broadcast_target=True)
        orders = gen.tensor_orders(target, tree)
        if orders[target[1]] == 0:
            continue
        for _ in range(plan["draws"]):
            formats = sparse_output_formats(rng, orders, target[1])
            do(engine.build_case(rng, target, tree, formats, origin="random"))
    for case in engine.lattice_cases(rng, plan["lattice"] // n_shards, 3):
        if "s" not in case.formats[case.target[1]]:
            continue
        rec.count("lattice_cases")
        do(case)
    for case in engine.wide_cases(rng, 8 if tier == "quick" else 60):
        if "s" not in case.formats[case.target[1]]:
            continue
        rec.count("wide_cases")
        do(case)
    for case in engine.high_order_cases(rng, 6 if tier == "quick" else 60):
        if "s" not in case.formats[case.target[1]]:
            continue
        rec.count("high_order_cases")
        do(case)
    # every output format of a few simple shapes (engine.output_exhaustive_cases)
    for case in engine.output_exhaustive_cases(rng, index, n_shards, draws=3 if tier == "quick" else 8, light_order4=(tier == "quick")):
        if "s" not in case.formats[case.target[1]]:
            continue
        rec.count("every_output_format_cases")
        do(case)
    # bounded-exhaustive small shapes (engine.small_shapes): every tree with <= 5 leaves, all operands compressed
    for case in engine.small_shape_cases(rng, index, n_shards, draws=3 if tier == "quick" else 6):
        rec.count("small_shape_cases")
        do(case)


def main(tier):
    run = Run(PID, tier, LEVEL, RULE)
    bad = controls.all_fired(controls.irvm_controls()) + controls.all_fired(controls.validator_controls())
    for b in bad:
        run.inconclusive_because(f"positive control did not fire: {b}")
    run.counters["positive_controls_fired"] = 18 - len(bad)
    plan = PLAN[tier]
    run_shards(run, "c02", plan["shards"], timeout_s=3600 if tier == "quick" else 7200)
    from . import c11

    c11.operator_outputs_for_c02(run, tier)
    if run.counters.get("irvm-evaluate_outputs_validated", 0) < 800 or run.counters.get("jit_outputs_validated", 0) < 150:
        run.inconclusive_because("too few outputs were validated")
    from .. import contracts_leg

    if tier == "thorough":
        contracts_leg.run(run, PID, tier)
    run.assumptions += [
        "validator = property text: pos[0]==0, pos non-decreasing, parent+1 entries present and initialised, each crd segment "
        "strictly increasing and inside the dimension of its level, a value for every stored position; arrays longer than the "
        "structure they describe are allowed (C05 says 'at least as long')",
        "on real heaps array lengths are invisible; a too-short array there is observed by the sanitizer legs of C05",
    ]
    return run.finish()


def replay(path):
    d = json.load(open(path))
    case = engine.case_from_description(d["witness"]["case"])
    rec = Run(PID, "quick", LEVEL, RULE)
    k = sweep.observe_kinds(case)
    if k.status == "ran":
        judge(rec, k.evaluate, case, "irvm-evaluate")
        judge(rec, k.assemble, case, "irvm-assemble")
        judge(rec, k.compute, case, "irvm-compute")
        oj = sweep.observe_jit(case)
        if oj.status == "ran":
            judge(rec, oj, case, "jit")
    print("replay:", json.dumps(rec.violations)[:800])
    if rec.violations:
        print(f"VIOLATION property={PID} replay={path}")
        return 1
    return 0
