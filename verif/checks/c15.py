"""C15 - generated code is a pure function of the request; caching is invisible.

(1) SHA-256 of generate_code text compared between subprocesses with different PYTHONHASHSEED and
request orders (run to run, never against golden text); (2) CLI stdout / -o file vs library text;
(3) evaluate() warm cache vs cleared cache vs fresh process (raw arrays); (4) kernel sharing only
between identical problems, by identity and by behaviour."""

from __future__ import annotations

import json
import os
import random
import subprocess
import sys

from .. import engine, gen, taco
from ..common import ROOT, Run, rm_tree, work_dir

PID = "C15"
LEVEL = "exploration"
RULE = ("requests = curated + random assignments x random formats x kind sets {e},{a,c},{a,c,e} x {c,llvm}; each generated twice in "
        "each of N subprocesses (hash seeds 0,1,2,3,random x request orders forward/reversed/shuffled), SHA-256 compared between "
        "processes; CLI stdout/-o compared with the library text in-process; evaluate() compared warm vs cleared vs fresh process; "
        "near-identical request pairs checked for kernel sharing; non-trivial = code was produced; distinct by request")


def build_requests(rng, n_problems):
    reqs = []
    shapes = list(gen.CURATED) + list(gen.BROADCAST)
    kindsets = [["evaluate"], ["assemble", "compute"], ["assemble", "compute", "evaluate"], ["compute"]]
    for k in range(n_problems):
        if k < len(shapes):
            target, tree = gen.parse(shapes[k])
        else:
            target, tree = gen.random_assignment(rng, allow_broadcast_target=True)
        orders = gen.tensor_orders(target, tree)
        fm = gen.random_formats(rng, orders)
        formats = {target[1]: fm[target[1]]}
        for n in gen.tensors_of(tree):
            formats[n] = fm[n]
        base = {"assignment": gen.show_assignment(target, tree), "formats": formats,
                "kinds": kindsets[k % len(kindsets)], "language": "c" if k % 2 == 0 else "llvm",
                "omit_dense": k % 3 == 0}
        reqs.append(base)
        # near-identical requests for the same problem: what was generated before must not matter
        if len(base["kinds"]) >= 2:
            reqs.append({**base, "kinds": list(reversed(base["kinds"]))})
        if k % 2 == 0:
            reqs.append({**base, "language": "llvm" if base["language"] == "c" else "c"})
        if k % 5 == 0:
            reqs.append({**base, "kinds": [base["kinds"][0]]})
        if k % 4 == 1:
            # a kind mentioned twice: whatever the library returns for the list as given, the CLI must print the same
            reqs.append({**base, "kinds": base["kinds"] + [base["kinds"][0]], "language": "c"})
    return reqs


def sharing_checks(run, rng):
    """(4): tensor_method(p1) is tensor_method(p2) only for identical problems; a request served
    after a near-identical one still accepts its own tensors and rejects the other's."""
    from tensora import tensor_method
    from tensora.compile import BackendCompiler

    bf = {"A": "dd", "B": "dd", "C": "ds"}
    base = ("A(i,j) = B(i,j) + C(i,j)", bf)
    variants = [
        ("mode", ("A(i,j) = B(i,j) + C(i,j)", {**bf, "B": "ds"})),
        ("ordering", ("A(i,j) = B(i,j) + C(i,j)", {**bf, "B": "d1d0"})),
        ("output-mode", ("A(i,j) = B(i,j) + C(i,j)", {**bf, "A": "ds"})),
        ("output-ordering", ("A(i,j) = B(i,j) + C(i,j)", {**bf, "A": "d1d0"})),
        ("tensor-order-of-appearance", ("A(i,j) = C(i,j) + B(i,j)", dict(bf))),
        ("token", ("A(i,j) = B(i,j) - C(i,j)", dict(bf))),
        ("index-name", ("A(i,k) = B(i,k) + C(i,k)", dict(bf))),
        ("literal", ("A(i,j) = B(i,j) + C(i,j) * 2", dict(bf))),
    ]
    m0 = tensor_method(*base)
    if tensor_method(base[0], dict(base[1])) is not m0:
        run.count("identical_requests_not_shared")  # allowed (sharing is an optimisation), only counted
    else:
        run.count("identical_requests_shared")
    # same formats given in another dict order is the same problem
    dims = (2, 3)
    Bs = gen.random_entries(rng, dims)
    Cs = gen.random_entries(rng, dims)
    for label, (asg, fmts) in variants:
        run.evaluated()
        try:
            m = tensor_method(asg, fmts)
        except Exception as exc:  # noqa: BLE001
            run.count("sharing_variant_refused")
            continue
        if m is m0 and label not in ("index-name", "tensor-order-of-appearance"):
            run.violation("kernel-shared-between-different-problems", {"difference": label, "base": base, "other": (asg, fmts)})
            continue
        # behaviour: each accepts its own tensors, and rejects the other's where formats differ
        mine = {n: taco.to_tensor(Bs if n == "B" else Cs, dims, *taco.parse_fmt(fmts[n])) for n in ("B", "C")}
        base_in = {n: taco.to_tensor(Bs if n == "B" else Cs, dims, *taco.parse_fmt(base[1][n])) for n in ("B", "C")}
        try:
            r = taco.validate(*taco.read_raw(m(**mine)))
            r0 = taco.validate(*taco.read_raw(m0(**base_in)))
        except Exception as exc:  # noqa: BLE001
            run.violation("near-identical-request-fails-on-its-own-tensors", {"difference": label, "error": f"{type(exc).__name__}: {exc}"[:200]})
            continue
        sign = -1 if label == "token" else 1
        mult = 2 if label == "literal" else 1
        for c in [(i, j) for i in range(2) for j in range(3)]:
            want = Bs.get(c, 0.0) + sign * mult * Cs.get(c, 0.0)
            if r.get(c, 0.0) != want or r0.get(c, 0.0) != Bs.get(c, 0.0) + Cs.get(c, 0.0):
                run.violation("kernel-mixed-up-between-near-identical-requests", {"difference": label, "coordinate": c, "got": r.get(c, 0.0), "want": want})
                break
        if fmts != base[1]:
            try:
                m(**base_in)
                if any(fmts[n] != base[1][n] for n in ("B", "C")):
                    run.violation("request-accepts-tensors-of-the-other-format", {"difference": label})
            except (ValueError, TypeError):
                pass
        run.count("sharing_pairs_checked")
        run.nontrivial(f"sharing:{label}")
    for backend_pair in [(BackendCompiler.llvm, BackendCompiler.cffi)]:
        pass  # the cffi back end is exercised by C14 (compilation costs ~1 s per kernel)


def main(tier):
    run = Run(PID, tier, LEVEL, RULE)
    rng = random.Random(f"C15-{run.seed}")
    n_problems = 220 if tier == "quick" else 900
    reqs = build_requests(rng, n_problems)
    evals = []
    for case in engine.curated_cases(random.Random(f"C15e-{run.seed}"), 1, 1, include_broadcast=False):
        case.capacity = None
        evals.append(case.describe())
    evals = evals[: (30 if tier == "quick" else 80)]
    seeds = ["0", "1", "2", "3", "random"] if tier == "quick" else [str(k) for k in range(9)] + ["random"]
    orders = {"forward": list(range(len(reqs))), "reversed": list(reversed(range(len(reqs))))}
    sh = list(range(len(reqs)))
    random.Random(7).shuffle(sh)
    orders["shuffled"] = sh
    wd = work_dir("c15")
    procs = []
    try:
        k = 0
        for hs in seeds:
            for oname, order in orders.items():
                if tier == "quick" and hs not in ("0", "random") and oname != ("forward", "reversed", "shuffled")[int(hs) % 3]:
                    continue
                spec = {"requests": reqs, "order": order, "cli": list(range(0, len(reqs), 4)) if oname == "forward" else [],
                        "evals": evals if oname != "reversed" else []}
                sp = os.path.join(wd, f"spec{k}.json")
                op = os.path.join(wd, f"out{k}.json")
                json.dump(spec, open(sp, "w"))
                env = dict(os.environ)
                env["PYTHONHASHSEED"] = hs
                env["PYTHONPATH"] = ROOT + os.pathsep + env.get("PYTHONPATH", "")
                p = subprocess.Popen([sys.executable, os.path.join(ROOT, "verif", "c15_child.py"), sp, op], env=env,
                                     stdout=subprocess.PIPE, stderr=subprocess.STDOUT, cwd=ROOT)
                procs.append((p, op, hs, oname))
                k += 1
        results = []
        for p, op, hs, oname in procs:
            try:
                outp, _ = p.communicate(timeout=3600 if tier == "quick" else 14400)
            except subprocess.TimeoutExpired:
                p.kill()
                run.inconclusive_because(f"child hashseed={hs} order={oname} hit the wall-clock watchdog")
                continue
            if p.returncode != 0 or not os.path.exists(op):
                if p.returncode is not None and p.returncode < 0:
                    run.violation("process-died", {"hashseed": hs, "order": oname, "signal": -p.returncode})
                else:
                    run.inconclusive_because(f"child hashseed={hs} order={oname} failed: {outp.decode(errors='replace')[-300:]}")
                continue
            results.append((hs, oname, json.load(open(op))))
    finally:
        rm_tree(wd)
    run.counters["processes"] = len(results)
    if len(results) >= 2:
        ref_hs, ref_o, ref = results[0]
        for hs, oname, r in results:
            run.count("texts_hashed", len(r["shas"]))
            for i in r["repeat_mismatch"]:
                run.violation("text-differs-between-two-requests-in-one-process", {"request": reqs[i], "hashseed": hs, "order": oname})
            for i, h in r["shas"].items():
                run.evaluated()
                if ref["shas"].get(i) != h:
                    run.violation("text-differs-between-processes", {"request": reqs[int(i)], "a": {"hashseed": ref_hs, "order": ref_o, "sha": ref["shas"].get(i)},
                                                                     "b": {"hashseed": hs, "order": oname, "sha": h}})
            run.count("cli_comparisons", r["cli"]["checked"])
            for m in r["cli"]["mismatch"]:
                run.violation(f"cli-differs-from-library:{m['how']}", m)
            run.count("cache_comparisons", r["cache"]["checked"])
            run.count("swapped_format_requests_after_the_original", r["cache"].get("swapped_format_requests", 0))
            for m in r["cache"]["mismatch"]:
                run.violation("cached-result-differs-from-fresh-compile", m)
        # fresh-process comparison of evaluate results
        with_evals = [(hs, o, r) for hs, o, r in results if r["cache"]["results"]]
        if with_evals:
            base = with_evals[0][2]["cache"]["results"]
            for hs, o, r in with_evals[1:]:
                for j, h in r["cache"]["results"].items():
                    if base.get(j) != h:
                        run.violation("evaluate-result-differs-between-processes", {"case": evals[int(j)], "hashseed": hs, "order": o})
                    run.count("cross_process_result_comparisons")
        for i, h in ref["shas"].items():
            if not h.startswith("FAIL"):
                run.nontrivial(json.dumps(reqs[int(i)], sort_keys=True))
        run.sample({"request": reqs[0], "sha256": ref["shas"]["0"], "processes": [(hs, o) for hs, o, _ in results]})
    else:
        run.inconclusive_because("fewer than two child processes completed")
    sharing_checks(run, rng)
    if run.counters.get("cli_comparisons", 0) < 20 or run.counters.get("cache_comparisons", 0) < 20:
        run.inconclusive_because("CLI or cache comparisons did not run")
    run.assumptions += ["text is compared run to run, never against stored golden text",
                        "sharing a kernel between identical requests is allowed but not required"]
    return run.finish()


def replay(path):
    d = json.load(open(path))
    print("replay witness:", json.dumps(d["witness"])[:800])
    return 0
