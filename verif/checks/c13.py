"""C13 - kernel-allocated storage is freed exactly once, after its last user.

Events: malloc/realloc/free of blocks allocated *by kernels*, recorded by an LD_PRELOAD interposer
(csrc/interpose.c) interleaved with logical marks written by the history driver.  The offline
checker replays the log against an ownership model: name -> tensor id -> blocks."""

from __future__ import annotations

import json
import os
import subprocess
import sys

from ..common import ROOT, Run, WORK_DIR, rm_tree, work_dir

PID = "C13"
LEVEL = "exploration"
RULE = ("histories over {eval_sparse, eval_dense, eval_scalar, alias, rawref, read, pickle, feed, del, gc} with <= 3 names: EVERY "
        "sequence of length <= 4 (11110; quick) / <= 5 (thorough) plus seeded random longer ones, on the LLVM back end and a sample on "
        "the cffi back end, and a repeated-evaluation loop; each followed by del-all + gc; non-trivial = the history created >= 1 "
        "kernel-allocated tensor; distinct by op sequence")


def build_interposer():
    os.makedirs(WORK_DIR, exist_ok=True)
    so = os.path.join(WORK_DIR, "libverif_interpose.so")
    src = os.path.join(ROOT, "csrc", "interpose.c")
    if not os.path.exists(so) or os.path.getmtime(so) < os.path.getmtime(src):
        tmp = so + f".{os.getpid()}"
        r = subprocess.run(["gcc", "-O1", "-g", "-shared", "-fPIC", "-o", tmp, src, "-ldl", "-lpthread"], capture_output=True, text=True)
        if r.returncode != 0:
            return None, r.stderr[-500:]
        os.replace(tmp, so)
    return so, ""


def check_logs(run, ops_path, alloc_path, cfg):
    """Offline checker: replay both logs against the ownership model."""
    # allocation events grouped by mark
    by_mark = {}
    cur = 0
    for line in open(alloc_path):
        p = line.split()
        if not p:
            continue
        if p[0] == "K":
            cur = int(p[1])
            continue
        by_mark.setdefault(cur, []).append(p)
    owner = {}  # live tracked address -> tid (or "untracked-yet")
    blocks = {}  # tid -> set of live addresses
    hist = None
    ops = None
    for line in open(ops_path):
        rec = json.loads(line)
        if "history" in rec:
            hist = rec["history"]
            ops = rec["ops"]
            owner_h = owner
            continue
        if "summary" in rec:
            run.count("histories", rec["histories"])
            run.count("kernel_calls_through_trampoline", rec["kernel_calls"])
            if rec["kernel_calls"] == 0:
                run.inconclusive_because("no kernel call went through the trampoline: the hook on the compiled function pointer is not on the call path")
            continue
        if "history_end" in rec:
            run.evaluated()
            if rec["created"]:
                run.nontrivial(" ".join(ops))
            leftover = {t: sorted(b) for t, b in blocks.items() if b}
            if leftover:
                run.violation("kernel-blocks-live-after-history-end", {"ops": ops, "config": cfg, "tensors": {str(k): [hex(a) for a in v] for k, v in leftover.items()}})
                blocks.clear()
                owner.clear()
            continue
        if "loop_begin" in rec or "loop_end" in rec:
            if "loop_end" in rec:
                live = set()
                n_m = n_f = 0
                for m in range(loop_mark, rec["mark"] + 1):
                    for p in by_mark.get(m, []):
                        if p[0] in ("M", "N"):
                            live.add(p[1]); n_m += 1
                        elif p[0] == "R":
                            live.discard(p[1]); live.add(p[2])
                        elif p[0] == "F":
                            live.discard(p[1]); n_f += 1
                        elif p[0] == "D":
                            run.violation("double-free", {"where": "evaluation loop", "config": cfg})
                run.count("loop_kernel_allocations", n_m)
                run.counters["max_loop_live_blocks_at_end"] = max(run.counters.get("max_loop_live_blocks_at_end", 0), len(live))
                if live:
                    run.violation("repeated-evaluation-leaks", {"iterations": rec["loop_end"], "live_blocks_after_del_and_gc": len(live), "config": cfg})
            else:
                loop_mark = rec["mark"]
            continue
        mark = rec["mark"]
        op = rec["op"]
        events = by_mark.get(mark, [])
        run.count("steps")
        if len(rec.get("variant", ())) > 2:
            run.count("evaluations_through_a_directly_built_problem")
        refs_after = set(rec["refs_after"])
        in_kernel = False
        call_live = set()
        for p in events:
            if p[0] == "E":
                in_kernel = True
                call_live = set()
            elif p[0] == "X":
                in_kernel = False
            elif p[0] in ("M", "N"):
                call_live.add(int(p[1], 16))
                run.count("kernel_allocations")
            elif p[0] == "R":
                old, new, inside = int(p[1], 16), int(p[2], 16), p[4] == "1"
                if old in call_live:
                    call_live.discard(old)
                    if new:
                        call_live.add(new)
                else:
                    tid = owner.pop(old, None)
                    if tid is not None:
                        blocks[tid].discard(old)
                        run.violation("realloc-of-a-block-owned-by-an-existing-tensor", {"ops": ops, "step": op, "tensor": tid, "inside_kernel": inside, "config": cfg})
            elif p[0] == "F":
                addr, inside = int(p[1], 16), p[2] == "1"
                run.count("frees_of_kernel_blocks")
                if addr in call_live:
                    call_live.discard(addr)
                    continue
                tid = owner.pop(addr, None)
                if tid is None:
                    continue
                blocks[tid].discard(addr)
                if inside:
                    run.violation("kernel-freed-a-block-of-an-existing-tensor", {"ops": ops, "step": op, "tensor": tid, "config": cfg})
                elif tid in refs_after:
                    run.violation("freed-while-still-referenced", {"ops": ops, "step": op, "tensor": tid, "address": hex(addr), "refs_after_step": sorted(refs_after), "config": cfg})
            elif p[0] == "D":
                run.violation("double-free", {"ops": ops, "step": op, "address": p[1], "config": cfg})
        if "new_tid" in rec:
            tid = rec["new_tid"]
            ptrs = set(rec["pointers"])
            if call_live != ptrs:
                leaked = call_live - ptrs
                foreign = ptrs - call_live
                if leaked:
                    run.violation("kernel-allocation-not-handed-back", {"ops": ops, "step": op, "addresses": [hex(a) for a in sorted(leaked)], "config": cfg})
                if foreign:
                    run.violation("returned-array-not-allocated-by-the-kernel", {"ops": ops, "step": op, "addresses": [hex(a) for a in sorted(foreign)], "config": cfg})
            blocks[tid] = set(ptrs & call_live)
            for a in blocks[tid]:
                owner[a] = tid
            run.count("tensors_created")
        if op == "gc":
            for tid, b in list(blocks.items()):
                if b and tid not in refs_after:
                    run.violation("not-freed-after-last-reference-and-gc", {"ops": ops, "tensor": tid, "live_blocks": len(b), "config": cfg})
                    for a in b:
                        owner.pop(a, None)
                    blocks[tid] = set()
        for tid in [t for t, b in blocks.items() if not b]:
            del blocks[tid]


def model_controls():
    """Positive controls of the offline checker on synthetic logs: early free, double free, leak."""
    import tempfile

    fired = {}
    for name, alloc, want in (
        ("early-free", "K 1\nE\nM a0 8\nX\nK 2\nF a0 0\nK 3\nK 4\nK 5\n", "freed-while-still-referenced"),
        ("double-free", "K 1\nE\nM a0 8\nX\nK 2\nK 3\nF a0 0\nD a0\nK 4\nK 5\n", "double-free"),
        ("leak", "K 1\nE\nM a0 8\nX\nK 2\nK 3\nK 4\nK 5\n", "not-freed-after-last-reference-and-gc"),
        ("not-handed-back", "K 1\nE\nM a0 8\nM b0 8\nX\nK 2\nK 3\nF a0 0\nK 4\nK 5\n", "kernel-allocation-not-handed-back"),
    ):
        with tempfile.TemporaryDirectory(dir=WORK_DIR) as d:
            ap, op = os.path.join(d, "a.log"), os.path.join(d, "o.jsonl")
            open(ap, "w").write(alloc)
            lines = [{"history": 0, "ops": ["eval_sparse", "read"], "begin_mark": 1},
                     {"op": "eval_sparse", "new_tid": 1, "pointers": [0xA0], "name": "x", "refs_after": [1], "mark": 1},
                     {"op": "read", "refs_after": [1], "mark": 2},
                     {"op": "__del_all__", "refs_after": [], "mark": 3},
                     {"op": "gc", "refs_after": [], "mark": 4},
                     {"history_end": 0, "mark": 5, "created": [1]}]
            open(op, "w").write("\n".join(json.dumps(x) for x in lines) + "\n")
            r = Run(PID, "quick", LEVEL, "")
            check_logs(r, op, ap, {})
            fired[name] = want in r.violations
    return fired


def main(tier):
    run = Run(PID, tier, LEVEL, RULE)
    so, err = build_interposer()
    if so is None:
        run.inconclusive_because(f"interposer did not build: {err}")
        return run.finish()
    for k, v in model_controls().items():
        if not v:
            run.inconclusive_because(f"positive control did not fire: {k}")
    wd = work_dir("c13")
    n_shards = 12 if tier == "quick" else 16
    configs = []
    for i in range(n_shards):
        configs.append({"seed": run.seed * 100 + i, "exhaustive_len": 4 if tier == "quick" else 5, "index": i, "n_shards": n_shards,
                        "random": 60 if tier == "quick" else 4000, "min_len": 5, "max_len": 9, "backend": "llvm",
                        "loop": 2000 if (i == 0 and tier == "quick") else (20000 if i == 0 else 0)})
    configs.append({"seed": run.seed * 100 + 99, "random": 150 if tier == "quick" else 1500, "min_len": 3, "max_len": 7, "backend": "cffi", "loop": 300})
    procs = []
    try:
        for k, cfg in enumerate(configs):
            sp, op, ap = (os.path.join(wd, f"{n}{k}") for n in ("spec", "ops", "alloc"))
            json.dump(cfg, open(sp, "w"))
            env = dict(os.environ)
            env.update({"LD_PRELOAD": so, "VERIF_ALLOC_LOG": ap, "PYTHONHASHSEED": "0", "PYTHONPATH": ROOT + os.pathsep + env.get("PYTHONPATH", ""),
                        "PYTHONFAULTHANDLER": "1"})
            p = subprocess.Popen([sys.executable, os.path.join(ROOT, "verif", "c13_child.py"), sp, op], env=env, stdout=subprocess.PIPE,
                                 stderr=subprocess.STDOUT, cwd=wd)
            procs.append((p, cfg, op, ap))
        for p, cfg, op, ap in procs:
            try:
                outp, _ = p.communicate(timeout=3600 if tier == "quick" else 6 * 3600)
            except subprocess.TimeoutExpired:
                p.kill()
                run.inconclusive_because(f"history driver {cfg['seed']} hit the wall-clock watchdog")
                continue
            if p.returncode != 0:
                tail = outp.decode(errors="replace")[-500:]
                if p.returncode < 0 or "double free" in tail or "corrupted" in tail:
                    run.violation("process-crashed", {"config": cfg, "returncode": p.returncode, "output_tail": tail})
                else:
                    run.inconclusive_because(f"history driver failed ({p.returncode}): {tail[-300:]}")
                continue
            check_logs(run, op, ap, {"backend": cfg["backend"], "seed": cfg["seed"]})
            run.countd("histories_by_backend", cfg["backend"], sum(1 for l in open(op) if l.startswith('{"history_end"')))
        run.sample({"ops": ["eval_sparse", "rawref", "del", "gc"], "note": "x = evaluate(...,'ss'); y = x.cffi_tensor; del x; gc.collect(): the arrays must stay allocated while y lives"})
    finally:
        rm_tree(wd)
    c = run.counters
    if c.get("histories", 0) < 5000 or c.get("tensors_created", 0) < 5000 or c.get("frees_of_kernel_blocks", 0) < 5000:
        run.inconclusive_because("too few histories / events were observed")
    run.exhaustive = False
    run.extra["exhaustive_subspace"] = "every op-kind sequence of length <= L (L = 4 quick, 5 thorough) was enumerated; names are chosen by rotation / seeded choice"
    run.assumptions += [
        "a block belongs to the kernel iff it was allocated between entering and leaving the C trampoline that calls the compiled function pointer",
        "'released when the last reference disappears' is restated as: freed no later than the next gc.collect() step after the last name is deleted",
    ]
    return run.finish()


def replay(path):
    d = json.load(open(path))
    print("replay witness:", json.dumps(d["witness"])[:800])
    return 0
