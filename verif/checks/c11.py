PID = "C11"
LEVEL = "exploration"


def operator_outputs_for_c02(run, tier):
    run.counters["operator_outputs"] = "not built yet"
