"""C11 - Tensor operators agree with element-wise and matrix arithmetic.

Observed at Tensor.__add__/__radd__/__sub__/__rsub__/__mul__/__rmul__/__matmul__, results decoded
from the raw arrays.  Oracle: exact dense arithmetic on the operands' decoded contents; the only
acceptable exceptions are the documented ValueError shape errors and NoKernelFoundError; for
natural-order operands the result format follows the documented rule."""

from __future__ import annotations

import itertools
import json
import random
from fractions import Fraction

from .. import controls, gen, taco
from ..common import Run, run_shards

PID = "C11"
LEVEL = "exploration"
RULE = ("operator calls over all operand format pairs of order 0..2 (exhaustive) and order 3 (sampled; exhaustive 48x48 in thorough) x "
        "dimensions incl. 0/1 x sparsity patterns incl. empty and explicit zeros x scalars {0,1,-2,0.5,True,Fraction(1,2)} on either "
        "side; @ for orders (1,1),(2,1),(1,2),(2,2) and rejected orders/shapes; non-trivial = an operand stores a non-zero and a "
        "tensor was returned; distinct by (operator, formats, dims, contents)")

SCALARS = [0, 1, -2, 0.5, True, Fraction(1, 2), 3]


def natural(fmt):
    return tuple(fmt[1]) == tuple(range(len(fmt[1])))


def make(rng, dims, fmt):
    entries = gen.random_entries(rng, dims, explicit_zero_p=0.1)
    return taco.to_tensor(entries, dims, fmt[0], fmt[1]), entries


def decode(rec, t, what, ctx):
    try:
        raw = taco.read_raw(t)
        return raw, taco.validate(*raw)
    except taco.Malformed as m:
        rec.violation(f"malformed-result:{m.rule}", {"operator": what, **ctx, "detail": m.detail})
        rec.count("c02_operator_outputs_malformed")
        return None, None


def expect_call(rec, fn, what, ctx, want_dims, want_value, want_format=None, may_refuse=True, must_raise=False):
    """Run one operator call and judge it."""
    from tensora.desugar import NoKernelFoundError

    rec.evaluated()
    rec.countd("operators", what)
    try:
        r = fn()
    except ValueError as e:
        if must_raise:
            rec.count("shape_errors_raised")
            return
        rec.violation("unexpected-ValueError", {"operator": what, **ctx, "error": str(e)[:200]})
        return
    except NoKernelFoundError:
        if must_raise:
            rec.violation("shape-error-expected-but-NoKernelFound", {"operator": what, **ctx})
        rec.count("refused_no_kernel")
        return
    except Exception as e:  # noqa: BLE001
        rec.violation(f"raised:{type(e).__name__}", {"operator": what, **ctx, "error": str(e)[:200]})
        return
    if must_raise:
        rec.violation("inconsistent-shapes-accepted", {"operator": what, **ctx})
        return
    if r is NotImplemented:
        rec.violation("returned-NotImplemented", {"operator": what, **ctx})
        return
    raw, dec = decode(rec, r, what, ctx)
    if raw is None:
        return
    rec.count("c02_operator_outputs_validated")
    if tuple(raw[0]) != tuple(want_dims):
        rec.violation("result-dimensions", {"operator": what, **ctx, "got": raw[0], "want": list(want_dims)})
        return
    for c in itertools.product(*(range(d) for d in want_dims)):
        w = want_value(c)
        g = dec.get(c, 0.0)
        if Fraction(g) != w:
            rec.violation("result-value", {"operator": what, **ctx, "coordinate": list(c), "got": g, "want": str(w)})
            return
    if set(dec) - set(itertools.product(*(range(d) for d in want_dims))):
        rec.violation("result-stores-coordinate-outside-dimensions", {"operator": what, **ctx})
        return
    if want_format is not None:
        got = "".join(raw[1])
        if got != want_format or tuple(raw[2]) != tuple(range(len(raw[1]))):
            rec.violation("result-format", {"operator": what, **ctx, "got": taco.fmt_text(raw[1], raw[2]), "want": want_format})
            return
    rec.count("results_correct")
    return dec


def val(entries, c):
    return Fraction(entries.get(c, 0.0))


def binary_cases(rec, rng, fa, fb, dims, note=""):
    a, ea = make(rng, dims, fa)
    b, eb = make(rng, dims, fb)
    ctx = {"left_format": taco.fmt_text(*fa), "right_format": taco.fmt_text(*fb), "dimensions": list(dims),
           "left": {str(k): v for k, v in ea.items()}, "right": {str(k): v for k, v in eb.items()}}
    nat = natural(fa) and natural(fb)
    union = "".join("d" if x == "d" or y == "d" else "s" for x, y in zip(fa[0], fb[0])) if nat else None
    inter = "".join("d" if x == "d" and y == "d" else "s" for x, y in zip(fa[0], fb[0])) if nat else None
    nz = any(v != 0 for v in ea.values()) or any(v != 0 for v in eb.values())
    for what, fn, wv, wf in (
        ("a+b", lambda: a + b, lambda c: val(ea, c) + val(eb, c), union),
        ("a-b", lambda: a - b, lambda c: val(ea, c) - val(eb, c), union),
        ("a*b", lambda: a * b, lambda c: val(ea, c) * val(eb, c), inter),
    ):
        d = expect_call(rec, fn, what, ctx, dims, wv, wf)
        if d is not None and nz:
            rec.nontrivial(hash((what, ctx["left_format"], ctx["right_format"], tuple(dims), tuple(sorted(ea.items())), tuple(sorted(eb.items())))))
    return a, ea, ctx


def chain_cases(rec, rng, fa, fb, dims):
    """Results as operands: (a op1 b) op2 c, where the intermediate result is whatever structure the
    first kernel produced (explicit zeros, scratch capacity) - multi-step use of the operators."""
    fc = rng.choice(taco.all_formats(len(dims)))
    a, ea = make(rng, dims, fa)
    b, eb = make(rng, dims, fb)
    c, ec = make(rng, dims, fc)
    ops = {"+": lambda x, y: x + y, "-": lambda x, y: x - y, "*": lambda x, y: x * y}
    o1, o2 = rng.choice("+-*"), rng.choice("+-*")
    s = rng.choice(SCALARS)
    fs = Fraction(int(s)) if isinstance(s, bool) else Fraction(s)
    ctx = {"left_format": taco.fmt_text(*fa), "right_format": taco.fmt_text(*fb), "third_format": taco.fmt_text(*fc), "dimensions": list(dims),
           "left": {str(k): v for k, v in ea.items()}, "right": {str(k): v for k, v in eb.items()}, "third": {str(k): v for k, v in ec.items()},
           "scalar": repr(s)}
    from tensora.desugar import NoKernelFoundError

    try:
        r1 = ops[o1](a, b)
    except (NoKernelFoundError, ValueError):
        return
    except Exception:  # noqa: BLE001 - judged by the single-operator cases
        return
    what = f"(a{o1}b){o2}c"
    expect_call(rec, lambda: ops[o2](r1, c), what, ctx, dims, lambda x: ops[o2](ops[o1](val(ea, x), val(eb, x)), val(ec, x)))
    what = f"c{o2}(a{o1}b)"
    expect_call(rec, lambda: ops[o2](c, r1), what, ctx, dims, lambda x: ops[o2](val(ec, x), ops[o1](val(ea, x), val(eb, x))))
    what = f"s*(a{o1}b)-c"
    expect_call(rec, lambda: s * r1 - c, what, ctx, dims, lambda x: fs * ops[o1](val(ea, x), val(eb, x)) - val(ec, x))
    rec.count("chains")


class NotANumber:
    pass


def foreign_operand_cases(rec, rng, fa, dims):
    """A tensor combined with something that is neither Tensor nor number: Python must end up raising
    TypeError (both sides return NotImplemented); a differing order must raise the shape ValueError."""
    a, ea = make(rng, dims, fa)
    ctx = {"format": taco.fmt_text(*fa), "dimensions": list(dims)}
    for label, other in (("str", "x"), ("none", None), ("list", [1.0]), ("complex", 1j), ("object", NotANumber())):
        for what, fn in ((f"a+{label}", lambda: a + other), (f"{label}*a", lambda: other * a), (f"a@{label}", lambda: a @ other),
                         (f"{label}-a", lambda: other - a)):
            rec.evaluated()
            try:
                r = fn()
            except TypeError:
                rec.count("foreign_operand_typeerror")
                continue
            except Exception as e:  # noqa: BLE001
                rec.violation(f"foreign-operand-raised:{type(e).__name__}", {"operator": what, **ctx, "error": str(e)[:200]})
                continue
            rec.violation("foreign-operand-returned-a-result", {"operator": what, **ctx, "result": repr(r)[:200]})
    # differing order: dimensions differ, so the documented shape error
    if len(dims) >= 1:
        fb = rng.choice(taco.all_formats(len(dims) - 1))
        b, _ = make(rng, tuple(dims[:-1]), fb)
        for what, fn in (("a+b-order-mismatch", lambda: a + b), ("b*a-order-mismatch", lambda: b * a), ("a-b-order-mismatch", lambda: a - b)):
            if len(dims) - 1 == 0 and False:
                continue
            expect_call(rec, fn, what, {**ctx, "right_dimensions": list(dims[:-1]), "right_format": taco.fmt_text(*fb)}, (), None, must_raise=True)


def scalar_cases(rec, rng, fa, dims):
    a, ea = make(rng, dims, fa)
    s = rng.choice(SCALARS)
    fs = Fraction(s) if not isinstance(s, bool) else Fraction(int(s))
    ctx = {"format": taco.fmt_text(*fa), "dimensions": list(dims), "tensor": {str(k): v for k, v in ea.items()}, "scalar": repr(s)}
    nat = natural(fa)
    dense = "d" * len(dims) if True else None
    same = "".join(fa[0]) if nat else None
    for what, fn, wv, wf in (
        ("a+s", lambda: a + s, lambda c: val(ea, c) + fs, dense),
        ("s+a", lambda: s + a, lambda c: fs + val(ea, c), dense),
        ("a-s", lambda: a - s, lambda c: val(ea, c) - fs, dense),
        ("s-a", lambda: s - a, lambda c: fs - val(ea, c), dense),
        ("a*s", lambda: a * s, lambda c: val(ea, c) * fs, same),
        ("s*a", lambda: s * a, lambda c: fs * val(ea, c), same),
    ):
        d = expect_call(rec, fn, what, ctx, dims, wv, wf if (nat or wf == dense) else None)
        if d is not None and any(v != 0 for v in ea.values()):
            rec.nontrivial(hash((what, ctx["format"], tuple(dims), tuple(sorted(ea.items())), repr(s))))


def matmul_cases(rec, rng, fa, fb, n, k, m):
    oa, ob = len(fa[0]), len(fb[0])
    da = (n, k) if oa == 2 else (k,)
    db = (k, m) if ob == 2 else (k,)
    a, ea = make(rng, da, fa)
    b, eb = make(rng, db, fb)
    ctx = {"left_format": taco.fmt_text(*fa), "right_format": taco.fmt_text(*fb), "left_dimensions": list(da), "right_dimensions": list(db),
           "left": {str(x): v for x, v in ea.items()}, "right": {str(x): v for x, v in eb.items()}}
    nat = natural(fa) and natural(fb)
    if oa == 1 and ob == 1:
        dims, wv, wf = (), (lambda c: sum(val(ea, (j,)) * val(eb, (j,)) for j in range(k))), ""
    elif oa == 2 and ob == 1:
        dims, wv = (n,), (lambda c: sum(val(ea, (c[0], j)) * val(eb, (j,)) for j in range(k)))
        wf = fa[0][0] if nat else None
    elif oa == 1 and ob == 2:
        dims, wv = (m,), (lambda c: sum(val(ea, (j,)) * val(eb, (j, c[0])) for j in range(k)))
        wf = fb[0][1] if nat else None
    else:
        dims, wv = (n, m), (lambda c: sum(val(ea, (c[0], j)) * val(eb, (j, c[1])) for j in range(k)))
        wf = (fa[0][0] + fb[0][1]) if nat else None
    d = expect_call(rec, lambda: a @ b, "a@b", ctx, dims, wv, wf)
    if d is not None and (any(v for v in ea.values()) and any(v for v in eb.values())):
        rec.nontrivial(hash(("@", ctx["left_format"], ctx["right_format"], tuple(da), tuple(db), tuple(sorted(ea.items())), tuple(sorted(eb.items())))))
    # inconsistent inner dimension must raise ValueError
    if rng.random() < 0.3:
        db2 = (k + 1, m) if ob == 2 else (k + 1,)
        b2, _ = make(rng, db2, fb)
        expect_call(rec, lambda: a @ b2, "a@b-mismatch", {**ctx, "right_dimensions": list(db2)}, (), None, must_raise=True)


def shard(rec, tier, index, n_shards, leg=None):
    if leg == "c02leg":
        index, n_shards, tier = index * 3, 12, "quick"
    rng = random.Random(f"C11-{rec.seed}-{index}")
    sizes = [0, 1, 2, 3, 3, 4]
    work = []
    for order in (0, 1, 2):
        fs = taco.all_formats(order)
        for fa in fs:
            for fb in fs:
                work.append(("bin", fa, fb))
    f3 = taco.all_formats(3)
    if tier == "thorough":
        for fa in f3:
            for fb in f3:
                work.append(("bin", fa, fb))
    else:
        r3 = random.Random(f"C11-order3-{rec.seed}")
        for _ in range(150):
            work.append(("bin", r3.choice(f3), r3.choice(f3)))
    for order in (0, 1, 2, 3):
        for fa in taco.all_formats(order):
            work.append(("scalar", fa, None))
    for oa, ob in ((1, 1), (2, 1), (1, 2), (2, 2)):
        for fa in taco.all_formats(oa):
            for fb in taco.all_formats(ob):
                work.append(("mat", fa, fb))
    reps = 5 if tier == "quick" else 40
    for kind, fa, fb in work[index::n_shards]:
        for _ in range(reps):
            if kind == "bin":
                dims = tuple(rng.choice(sizes) for _ in fa[0])
                a, ea, ctx = binary_cases(rec, rng, fa, fb, dims)
                if rng.random() < 0.25:
                    chain_cases(rec, rng, fa, fb, dims)
                if rng.random() < 0.05:
                    foreign_operand_cases(rec, rng, fa, dims)
                if len(dims) and rng.random() < 0.3:
                    d2 = list(dims)
                    d2[rng.randrange(len(d2))] += 1
                    b2, _ = make(rng, tuple(d2), fb)
                    expect_call(rec, lambda: a + b2, "a+b-mismatch", {**ctx, "right_dimensions": d2}, (), None, must_raise=True)
            elif kind == "scalar":
                scalar_cases(rec, rng, fa, tuple(rng.choice(sizes) for _ in fa[0]))
            else:
                matmul_cases(rec, rng, fa, fb, rng.choice(sizes), rng.choice(sizes), rng.choice(sizes))
    # rejected orders for @
    if index == 0:
        for oa, ob in ((0, 1), (1, 0), (3, 1), (2, 3), (0, 0), (3, 3)):
            a, _ = make(rng, (2,) * oa, taco.all_formats(oa)[0])
            b, _ = make(rng, (2,) * ob, taco.all_formats(ob)[0])
            expect_call(rec, lambda: a @ b, "a@b-bad-order", {"orders": [oa, ob]}, (), None, must_raise=True)
        rec.sample({"operator": "a+b", "left_format": "ds", "right_format": "sd", "note": "see counters for the per-operator totals"})


def operator_outputs_for_c02(run, tier):
    """C02's operator leg: results of the arithmetic operators validated raw (counters c02_*).
    Runs in subprocesses (a malformed result can crash the reader)."""
    rec = Run(PID, tier, LEVEL, "")
    rec.seed = run.seed
    run_shards(rec, "c11", 4, timeout_s=3600, extra_args=("c02leg",))
    run.counters["operator_outputs_validated"] = rec.counters.get("c02_operator_outputs_validated", 0)
    for cls, w in rec.violations.items():
        if cls.startswith("malformed-result") or cls == "process-died":
            run.violation(f"operator-{cls}", w)
    for r in rec.inconclusive:
        run.inconclusive_because(r)
    if run.counters["operator_outputs_validated"] < 200:
        run.inconclusive_because("too few operator results validated")


def main(tier):
    run = Run(PID, tier, LEVEL, RULE)
    bad = controls.all_fired(controls.validator_controls())
    for b in bad:
        run.inconclusive_because(f"positive control did not fire: {b}")
    run_shards(run, "c11", 12 if tier == "quick" else 16, timeout_s=3600 if tier == "quick" else 14400)
    if run.counters.get("results_correct", 0) < 2000:
        run.inconclusive_because("too few operator results judged")
    if run.counters.get("shape_errors_raised", 0) < 20:
        run.inconclusive_because("shape-mismatch probes did not run")
    run.assumptions += [
        "exact arithmetic on dyadic operand values; operands are built through taco_structure_to_cffi from the independent codec",
        "result format rule is only checked for natural-order operands, as the property states",
    ]
    return run.finish()


def replay(path):
    d = json.load(open(path))
    print("replay witness:", json.dumps(d["witness"])[:800])
    return 0
