"""C09 - Tensor construction and read-back are lossless for every format.

Observed at Tensor.from_dok/from_aos/from_soa/from_lol, items/to_dok, order/dimensions/format,
to_format, pickle and the raw C arrays.  Oracle: the summed non-zero entries supplied; the raw
structure must validate as canonical and decode to exactly those entries (plus zeros); an
out-of-range or negative coordinate must be rejected (any exception), never dropped."""

from __future__ import annotations

import itertools
import json
import pickle
import random

from .. import controls, taco
from ..common import Run, run_shards

PID = "C09"
LEVEL = "exploration"
RULE = ("bounded-exhaustive: every format of order 0..3 (59; order 4 sampled/exhaustive in thorough) x every dimension tuple over "
        "{0,1,2,3} with product <= 6 x EVERY subset of coordinates (values from a dyadic set, one explicit zero variant), plus seeded "
        "random larger cases with shuffled and duplicated entries, through from_dok/from_aos/from_soa/from_lol; to_format to a "
        "random second format and pickle round trip; one out-of-range / negative coordinate injected at every dimension position; "
        "non-trivial = at least one non-zero entry supplied; distinct by (format, dims, entries, entry point)")

VALUES = [1.0, 2.0, -1.0, 0.5, 3.0, -2.5]


def all_fmts(max_order):
    out = []
    for n in range(max_order + 1):
        out.extend(taco.all_formats(n))
    return out


def expected_sum(pairs):
    acc = {}
    for c, v in pairs:
        acc[c] = acc.get(c, 0.0) + v
    return acc


def lol_of(dims, dense):
    def rec(prefix, depth):
        if depth == len(dims):
            return dense.get(tuple(prefix), 0.0)
        return [rec(prefix + [i], depth + 1) for i in range(dims[depth])]

    return rec([], 0)


def check_tensor(rec, t, dims, modes, ordering, want_nonzero, supplied, what, ctx):
    """All read-back observations of one tensor.  -> True if clean."""
    from tensora.format import Mode

    def viol(cls, **kw):
        rec.violation(cls, {"entry": what, **ctx, **kw})
        return False

    if t.order != len(dims) or tuple(t.dimensions) != tuple(dims):
        return viol("order-or-dimensions", got=(t.order, t.dimensions))
    fm = tuple("d" if m == Mode.dense else "s" for m in t.format.modes)
    if fm != tuple(modes) or tuple(t.format.ordering) != tuple(ordering):
        return viol("format", got=(fm, t.format.ordering))
    try:
        raw = taco.read_raw(t)
        decoded = taco.validate(*raw)
    except taco.Malformed as m:
        return viol(f"not-canonical:{m.rule}", detail=m.detail)
    if tuple(raw[0]) != tuple(dims) or tuple(raw[1]) != tuple(modes) or tuple(raw[2]) != tuple(ordering):
        return viol("raw-header", got=raw[:3])
    nz = {c: v for c, v in decoded.items() if v != 0}
    if nz != want_nonzero:
        return viol("raw-content", got={str(k): v for k, v in nz.items()}, want={str(k): v for k, v in want_nonzero.items()})
    dok = t.to_dok()
    if dok != want_nonzero:
        return viol("to_dok", got={str(k): v for k, v in dok.items()}, want={str(k): v for k, v in want_nonzero.items()})
    items = list(t.items())
    if len(items) != len(decoded) or dict(items) != decoded:
        return viol("items", got=str(items)[:300], want=str(decoded)[:300])
    ex = t.to_dok(explicit_zeros=True)
    if ex != decoded:
        return viol("to_dok-explicit-zeros")
    # what a read returns belongs to the caller: editing it must not change what the next read returns
    # (multi-step: read, edit the result, read again)
    indices_view, vals_view = t.taco_indices, t.taco_vals
    before = (dict(dok), dict(ex), list(items), repr(indices_view), list(vals_view))
    junk = tuple(0 for _ in dims)
    dok[junk] = 12345.0
    ex.clear()
    items.clear()
    vals_view[:] = [99.0] * len(vals_view)
    for lvl in indices_view:
        for arr in lvl:
            arr[:] = [7] * len(arr)
    again = (t.to_dok(), t.to_dok(explicit_zeros=True), list(t.items()), repr(t.taco_indices), list(t.taco_vals))
    if again != before:
        which = [n for n, a, b in zip(("to_dok", "to_dok(explicit_zeros)", "items", "taco_indices", "taco_vals"), again, before) if a != b]
        return viol("read-changed-after-caller-edited-an-earlier-result", reads=which)
    rec.count("reread_after_editing_results")
    # stored coordinates must come from the supplied ones or from dense fill
    if supplied is not None:
        ind, vals = taco.build({c: 1.0 for c in supplied}, dims, modes, ordering)
        closure = taco.validate(dims, modes, ordering, ind, vals)
        if not set(decoded) <= set(closure):
            return viol("stores-unsupplied-coordinate")
        if raw[3] == ind:
            rec.count("raw_equals_independent_canonical_build")
    return True


def one_construction(rec, rng, dims, modes, ordering, pairs, entry, extras=True):
    from tensora import Tensor

    fmt = taco.fmt_text(modes, ordering)
    summed = expected_sum(pairs)
    want = {c: v for c, v in summed.items() if v != 0}
    ctx = {"format": fmt, "dimensions": list(dims), "pairs": [[list(c), v] for c, v in pairs]}
    rec.evaluated()
    rec.countd("entry_points", entry)
    try:
        if entry == "dok":
            t = Tensor.from_dok(dict(pairs), dimensions=tuple(dims), format=fmt)  # no duplicates possible in a dict
            summed = dict(pairs)
            want = {c: v for c, v in summed.items() if v != 0}
        elif entry == "aos":
            t = Tensor.from_aos([c for c, _ in pairs], [v for _, v in pairs], dimensions=tuple(dims), format=fmt)
        elif entry == "soa":
            cols = tuple([c[d] for c, _ in pairs] for d in range(len(dims)))
            if len(dims) == 0:
                return
            t = Tensor.from_soa(cols, [v for _, v in pairs], dimensions=tuple(dims), format=fmt)
        else:
            t = Tensor.from_lol(lol_of(dims, summed), dimensions=tuple(dims), format=fmt)
    except Exception as exc:  # noqa: BLE001
        rec.violation(f"constructor-raised:{type(exc).__name__}", {"entry": entry, **ctx, "error": str(exc)[:200]})
        return
    ok = check_tensor(rec, t, dims, modes, ordering, want, None if entry == "lol" else list(summed), entry, ctx)
    if ok and want:
        rec.nontrivial(hash((fmt, tuple(dims), tuple(sorted(summed.items())), entry)))
    if ok and extras:
        # to_format + pickle
        m2, o2 = rng.choice(taco.all_formats(len(dims)))
        try:
            t2 = t.to_format(taco.fmt_text(m2, o2))
            check_tensor(rec, t2, dims, m2, o2, want, None, f"{entry}->to_format", {**ctx, "second_format": taco.fmt_text(m2, o2)})
            t3 = pickle.loads(pickle.dumps(t))
            # content, format and canonical form are judged by check_tensor; bit-identity of the raw
            # arrays (explicit zeros kept) is more than the property states and only counted
            rec.count("pickle_raw_identical" if taco.read_raw(t3) == taco.read_raw(t) else "pickle_raw_differs")
            check_tensor(rec, t3, dims, modes, ordering, want, None, f"{entry}->pickle", ctx)
            if not (t == t3 and t == t2):
                rec.violation("equality-after-roundtrip", {"entry": entry, **ctx})
            rec.count("roundtrips")
        except Exception as exc:  # noqa: BLE001
            rec.violation(f"roundtrip-raised:{type(exc).__name__}", {"entry": entry, **ctx, "error": str(exc)[:200]})


def variant_constructions(rec, rng, dims, modes, ordering, pairs):
    """The same content through the less travelled argument forms: one-shot iterators, a Format object,
    omitted dimensions and/or format (content and order must survive; dimensions = largest index + 1),
    every pickle protocol, copy/deepcopy, and a to_format chain that must come back to the very same
    canonical structure."""
    import copy

    from tensora import Tensor
    from tensora.format import parse_format

    fmt = taco.fmt_text(modes, ordering)
    summed = expected_sum(pairs)
    want = {c: v for c, v in summed.items() if v != 0}
    ctx = {"format": fmt, "dimensions": list(dims), "pairs": [[list(c), v] for c, v in pairs]}
    cs = [c for c, _ in pairs]
    vs = [v for _, v in pairs]
    n = len(dims)
    which = rng.choice(["iterators", "format-object", "no-dimensions", "no-format", "neither", "pickle-protocols", "copy", "chain"])
    rec.evaluated()
    rec.countd("variant_constructions", which)
    try:
        if which == "iterators":
            if n and rng.random() < 0.5:
                cols = tuple(iter([c[d] for c in cs]) for d in range(n))
                t = Tensor.from_soa(cols, iter(vs), dimensions=tuple(dims), format=fmt)
            else:
                t = Tensor.from_aos(iter(cs), iter(vs), dimensions=tuple(dims), format=fmt)
            check_tensor(rec, t, dims, modes, ordering, want, cs, which, ctx)
        elif which == "format-object":
            t = Tensor.from_aos(cs, vs, dimensions=tuple(dims), format=parse_format(fmt).unwrap())
            check_tensor(rec, t, dims, modes, ordering, want, cs, which, ctx)
        elif which in ("no-dimensions", "no-format", "neither"):
            if not cs:
                return
            kw = {}
            if which != "no-dimensions":
                pass
            else:
                kw["format"] = fmt
            if which == "no-format":
                kw["dimensions"] = tuple(dims)
            entry = rng.choice(["aos", "dok", "soa"]) if n else "aos"
            if entry == "dok":
                t = Tensor.from_dok(dict(pairs), **kw)
                want_here = {c: v for c, v in dict(pairs).items() if v != 0}
            elif entry == "soa":
                t = Tensor.from_soa(tuple([c[d] for c in cs] for d in range(n)), vs, **kw)
                want_here = want
            else:
                t = Tensor.from_aos(cs, vs, **kw)
                want_here = want
            exp_dims = tuple(dims) if "dimensions" in kw else tuple(max(c[d] for c in cs) + 1 for d in range(n))
            got_dims = tuple(t.dimensions)
            if "dimensions" in kw:
                ok_dims = got_dims == exp_dims
            else:
                # omitted dimensions: the property only needs every supplied coordinate to be in range
                ok_dims = len(got_dims) == n and all(g >= e for g, e in zip(got_dims, exp_dims))
                if got_dims == exp_dims:
                    rec.count("default_dimensions_equal_largest_index_plus_one")
            if t.order != n or not ok_dims:
                rec.violation("default-dimensions", {"entry": f"{entry}:{which}", **ctx, "got": list(got_dims), "want_at_least": list(exp_dims)})
                return
            exp_dims = got_dims
            fm = tuple("d" if m.name == "dense" else "s" for m in t.format.modes)
            if "format" in kw and (fm != tuple(modes) or tuple(t.format.ordering) != tuple(ordering)):
                rec.violation("format", {"entry": f"{entry}:{which}", **ctx, "got": t.format.deparse()})
                return
            check_tensor(rec, t, exp_dims, fm, tuple(t.format.ordering), want_here, None, f"{entry}:{which}", ctx)
        elif which == "pickle-protocols":
            t = Tensor.from_aos(cs, vs, dimensions=tuple(dims), format=fmt)
            raw = taco.read_raw(t)
            for proto in range(0, pickle.HIGHEST_PROTOCOL + 1):
                t3 = pickle.loads(pickle.dumps(t, protocol=proto))
                rec.count("pickle_raw_identical" if taco.read_raw(t3) == raw else "pickle_raw_differs")
                check_tensor(rec, t3, dims, modes, ordering, want, None, f"pickle-protocol-{proto}", ctx)
        elif which == "copy":
            t = Tensor.from_aos(cs, vs, dimensions=tuple(dims), format=fmt)
            raw = taco.read_raw(t)
            for label, t3 in (("copy", copy.copy(t)), ("deepcopy", copy.deepcopy(t))):
                check_tensor(rec, t3, dims, modes, ordering, want, None, label, ctx)
            del t3
            if taco.read_raw(t) != raw:
                rec.violation("copy-changes-original", {**ctx})
        else:
            t = Tensor.from_aos(cs, vs, dimensions=tuple(dims), format=fmt)
            raw = taco.read_raw(t)
            cur = t
            hops = []
            for _ in range(rng.randint(2, 4)):
                m2, o2 = rng.choice(taco.all_formats(n))
                hops.append(taco.fmt_text(m2, o2))
                cur = cur.to_format(hops[-1])
                check_tensor(rec, cur, dims, m2, o2, want, None, "to_format-chain", {**ctx, "hops": list(hops)})
            back = cur.to_format(fmt)
            check_tensor(rec, back, dims, modes, ordering, want, None, "to_format-chain-back", {**ctx, "hops": list(hops)})
            rb = taco.read_raw(back)
            # whether explicit zeros survive to_format is not prescribed: structural identity with the
            # canonical build of the non-zeros is evidence only
            ind, vals = taco.build(want, dims, modes, ordering)
            if rb[3] == ind:
                rec.count("to_format_chain_back_equals_canonical_build")
    except Exception as exc:  # noqa: BLE001
        rec.violation(f"variant-raised:{type(exc).__name__}", {"entry": which, **ctx, "error": str(exc)[:200]})


BIG = [65535, 65536, 70001, 1 << 20]
ODD_VALUES = [0.1, 1e-300, 1.7976931348623157e308, -2.2250738585072014e-308, 3, 1 / 3, 123456789.125]


def big_coordinate_constructions(rec, rng):
    """Coordinates beyond 16 bits under compressed levels (a dense level of that size would allocate the whole
    dimension - one such case is kept small enough: 70001 doubles) and values that are not dyadic."""
    order = rng.choice([1, 2, 2, 3])
    modes, ordering = rng.choice([f for f in taco.all_formats(order)])
    dims = []
    for d in range(order):
        lvl = list(ordering).index(d)
        dense_below = any(m == "d" for m in modes[lvl:])
        dims.append(rng.choice(BIG) if not dense_below else rng.choice([1, 2, 3]))
    if all(m == "d" for m in modes):
        dims[ordering[0]] = 70001
    cs = []
    for _ in range(rng.randint(1, 6)):
        cs.append(tuple(rng.choice([0, x - 1, x // 2, max(0, x - 2)]) for x in dims))
    pairs = [(c, rng.choice(ODD_VALUES)) for c in cs]
    rec.count("big_coordinate_constructions")
    entry = rng.choice(["aos", "soa", "dok"])
    one_construction(rec, rng, tuple(dims), modes, ordering, pairs, entry, extras=False)
    # to_format only to formats that store every big dimension in a compressed level
    from tensora import Tensor

    try:
        t = Tensor.from_aos([c for c, _ in pairs], [v for _, v in pairs], dimensions=tuple(dims), format=taco.fmt_text(modes, ordering))
        o2 = list(ordering)
        rng.shuffle(o2)
        m2 = tuple("s" if dims[d] > 3 else rng.choice("ds") for d in o2)
        want = {c: v for c, v in expected_sum(pairs).items() if v != 0}
        t2 = t.to_format(taco.fmt_text(m2, tuple(o2)))
        check_tensor(rec, t2, tuple(dims), m2, tuple(o2), want, None, "big->to_format", {"format": taco.fmt_text(modes, ordering), "dimensions": list(dims)})
    except Exception as exc:  # noqa: BLE001
        rec.violation(f"roundtrip-raised:{type(exc).__name__}", {"entry": "big", "dimensions": list(dims), "error": str(exc)[:200]})


def rejection(rec, rng, dims, modes, ordering, pairs):
    """Inject one out-of-range or negative coordinate at each dimension position."""
    from tensora import Tensor

    fmt = taco.fmt_text(modes, ordering)
    order = len(dims)
    for d in range(order):
        for bad in (dims[d], dims[d] + 2, -1):
            base = tuple(rng.randrange(x) if x else 0 for x in dims)
            if any(x == 0 for k, x in enumerate(dims) if k != d):
                # another dimension is empty: every coordinate is out of range somewhere; skip
                continue
            c = list(base)
            c[d] = bad
            c = tuple(c)
            entry = rng.choice(["dok", "aos", "soa"])
            ps = [p for p in pairs if p[0] != c] + [(c, 2.0)]
            rng.shuffle(ps)
            rec.evaluated()
            rec.count("rejection_probes")
            try:
                if entry == "dok":
                    t = Tensor.from_dok(dict(ps), dimensions=tuple(dims), format=fmt)
                elif entry == "aos":
                    t = Tensor.from_aos([p[0] for p in ps], [p[1] for p in ps], dimensions=tuple(dims), format=fmt)
                else:
                    cols = tuple([p[0][k] for p in ps] for k in range(order))
                    t = Tensor.from_soa(cols, [p[1] for p in ps], dimensions=tuple(dims), format=fmt)
            except Exception:  # noqa: BLE001
                rec.count("rejected")
                continue
            # accepted: a violation; classify the known mechanism K10
            level = list(ordering).index(d)
            witness = {"format": fmt, "dimensions": list(dims), "bad_coordinate": list(c), "entry": entry,
                       "result": {str(k): v for k, v in t.to_dok().items()}}
            eff = list(dict(ps).items()) if entry == "dok" else ps
            remainder = {k: v for k, v in expected_sum([p for p in eff if p[0] != c]).items() if v != 0}
            known = None
            if modes[level] == "d" and t.to_dok() == remainder:
                known = "out-of-range-under-dense-level-dropped"
            rec.violation("out-of-range-coordinate-accepted" + (":" + known if known else ""), witness, known)


def shard(rec, tier, index, n_shards):
    rng = random.Random(f"C09-{rec.seed}-{index}")
    max_order = 3
    fmts = all_fmts(max_order)
    if tier == "thorough":
        fmts = fmts + taco.all_formats(4)
    work = []
    limit = 6 if tier == "quick" else 8
    for modes, ordering in fmts:
        n = len(modes)
        for dims in itertools.product(range(4), repeat=n):
            vol = 1
            for d in dims:
                vol *= d
            if vol <= limit and (n < 4 or vol <= 4):
                work.append((modes, ordering, dims))
    work = work[index::n_shards]
    n_exh = 0
    for modes, ordering, dims in work:
        coords = list(itertools.product(*(range(d) for d in dims)))
        for mask in range(1 << len(coords)):
            chosen = [c for k, c in enumerate(coords) if mask >> k & 1]
            pairs = [(c, VALUES[(k + mask) % len(VALUES)]) for k, c in enumerate(chosen)]
            entry = ("dok", "aos", "soa", "lol")[(mask + len(dims)) % 4]
            one_construction(rec, rng, dims, modes, ordering, pairs, entry, extras=(mask % 7 == 0))
            n_exh += 1
            if mask % 16 == 1 and chosen:
                # the same set with an explicit zero and a cancelling duplicate
                p2 = pairs + [(chosen[0], -pairs[0][1])]
                rng.shuffle(p2)
                one_construction(rec, rng, dims, modes, ordering, p2, "aos", extras=False)
        if len(dims) and rng.random() < 0.5:
            rejection(rec, rng, dims, modes, ordering, [(c, 1.0) for c in coords[:2]])
    rec.count("exhaustive_subspace_constructions", n_exh)
    # random larger cases: duplicates, shuffles, sizes up to 4
    n_rand = (6000 if tier == "quick" else 200000) // n_shards
    pool = all_fmts(3) if tier == "quick" else fmts
    for k in range(n_rand):
        modes, ordering = rng.choice(pool)
        n = len(modes)
        dims = tuple(rng.choice([1, 2, 3, 4, 4, 5]) for _ in range(n))
        coords = list(itertools.product(*(range(d) for d in dims)))
        m = rng.randint(0, min(len(coords), 10))
        chosen = [rng.choice(coords) for _ in range(m)] if coords else []
        pairs = [(c, rng.choice(VALUES + [0.0])) for c in chosen]
        if n == 0:
            pairs = [((), rng.choice(VALUES))] * rng.randint(0, 2)
        entry = rng.choice(["aos", "aos", "soa", "dok", "lol"])
        if entry == "dok":
            pairs = list(dict(pairs).items())
        one_construction(rec, rng, dims, modes, ordering, pairs, entry, extras=(k % 3 == 0))
        if k < 2:
            rec.sample({"format": taco.fmt_text(modes, ordering), "dimensions": dims, "pairs": [[list(c), v] for c, v in pairs], "entry": entry})
        if n and k % 4 == 0:
            rejection(rec, rng, dims, modes, ordering, [(c, 1.0) for c in chosen[:3]])
        if k % 3 == 1:
            variant_constructions(rec, rng, dims, modes, ordering, pairs)
        if k % 40 == 7:
            big_coordinate_constructions(rec, rng)


def main(tier):
    run = Run(PID, tier, LEVEL, RULE)
    bad = controls.all_fired(controls.validator_controls())
    for b in bad:
        run.inconclusive_because(f"positive control did not fire: {b}")
    run_shards(run, "c09", 12 if tier == "quick" else 16, timeout_s=3600 if tier == "quick" else 14400)
    if run.counters.get("rejection_probes", 0) < 500 or run.evaluations < 10000:
        run.inconclusive_because("too few constructions")
    run.exhaustive = False
    run.extra["exhaustive_subspace"] = "all formats of order 0..3 x dims over {0..3} with product <= limit x all coordinate subsets: enumerated completely (counter exhaustive_subspace_constructions)"
    from .. import contracts_leg

    contracts_leg.run(run, PID, tier)
    run.assumptions += [
        "content oracle = summed supplied entries with zeros dropped; whether explicit zeros are stored is not prescribed (counted only)",
        "a rejected coordinate may raise any exception",
    ]
    return run.finish()


def replay(path):
    d = json.load(open(path))
    print("replay witness:", json.dumps(d["witness"])[:600])
    return 0
