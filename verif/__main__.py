"""python -m verif <ID> [--tier quick|thorough] [--replay file]"""

import argparse
import importlib
import os
import sys


def main():
    ap = argparse.ArgumentParser()
    ap.add_argument("pid")
    ap.add_argument("--tier", default=os.environ.get("VERIF_TIER", "quick"), choices=["quick", "thorough"])
    ap.add_argument("--replay", default=None)
    args = ap.parse_args()
    os.environ.setdefault("PYTHONHASHSEED", "0")
    mod = importlib.import_module(f"verif.checks.{args.pid.lower()}")
    if args.replay:
        sys.exit(mod.replay(args.replay))
    sys.exit(mod.main(args.tier))


if __name__ == "__main__":
    main()
