"""Batch of JIT kernel executions meant to run under valgrind memcheck (C05 jit leg).

argv: spec.json out.json.  Runs every case through TensorMethod (LLVM back end), reads the result
raw (so a too-short array is a read error inside this process) and frees it."""

import gc
import json
import os
import sys

sys.path.insert(0, os.path.dirname(os.path.dirname(os.path.abspath(__file__))))


def main():
    spec = json.load(open(sys.argv[1]))
    from verif import engine, sweep, taco

    done = 0
    refused = 0
    malformed = []
    cache = {}
    for d in spec["cases"]:
        case = engine.case_from_description(d)
        o = sweep.observe_jit(case, cache)
        if o.status != "ran":
            refused += 1
            continue
        done += 1
        if o.malformed is not None:
            malformed.append({"case": d, "rule": o.malformed.rule})
        o.extra.clear()
        del o
        if done % 10 == 0:
            gc.collect()
    gc.collect()
    json.dump({"ran": done, "refused": refused, "malformed": malformed}, open(sys.argv[2], "w"))


main()
