"""Cases, problem construction from the working tree, and the two in-process executors:
the IR abstract machine (E1) and the LLVM JIT as `evaluate()` uses it (E6)."""

from __future__ import annotations

import contextlib
import random
from dataclasses import dataclass, field

from . import gen, irvm, refsem, taco


@dataclass
class Case:
    assignment: str
    formats: dict  # name -> format text, target first
    sizes: dict  # index -> size
    inputs: dict  # name -> {coord: value} (stored entries, explicit zeros allowed)
    capacity: int | None = None
    origin: str = ""
    target: tuple = None
    tree: tuple = None
    # True: the Problem is constructed directly (tensora.problem.Problem) with the tensors in the
    # order of `formats`, which then is the kernel's parameter order - not necessarily target first.
    # False: through make_problem, which orders them by appearance in the assignment.
    direct_problem: bool = False

    def key(self):
        return (self.assignment, tuple(sorted(self.formats.items())), tuple(sorted(self.sizes.items())),
                tuple((n, tuple(sorted(v.items()))) for n, v in sorted(self.inputs.items())), self.capacity,
                tuple(self.formats) if self.direct_problem else None)

    def describe(self):
        return {
            "assignment": self.assignment,
            "formats": dict(self.formats),
            "index_sizes": dict(self.sizes),
            "inputs": {n: {str(list(c)): v for c, v in sorted(m.items())} for n, m in self.inputs.items()},
            "initial_capacity": self.capacity,
            "origin": self.origin,
            **({"parameter_order": list(self.formats)} if self.direct_problem else {}),
        }


def case_from_description(d) -> Case:
    import ast as pyast

    target, tree = gen.parse(d["assignment"])
    inputs = {n: {tuple(pyast.literal_eval(c)): v for c, v in m.items()} for n, m in d["inputs"].items()}
    formats = dict(d["formats"])
    direct = "parameter_order" in d
    if direct:
        formats = {n: formats[n] for n in d["parameter_order"]}
    return Case(d["assignment"], formats, dict(d["index_sizes"]), inputs, d.get("initial_capacity"),
                d.get("origin", "replay"), target, tree, direct)


# --------------------------------------------------------------------------- tensora front door


class Refused(Exception):
    """A documented refusal (not a failure)."""


class InternalError(Exception):
    """generation raised something that is not a documented refusal"""

    def __init__(self, exc):
        super().__init__(f"{type(exc).__name__}: {exc}")
        self.exc = exc


@contextlib.contextmanager
def initial_capacity(cap):
    """Rebind the module attribute the TENSORA_VERIF_INITIAL_CAPACITY hook rebinds."""
    from tensora.ir.ast import IntegerLiteral
    from tensora.iteration_graph.outputs import _append

    old = _append.default_array_size
    if cap is not None:
        _append.default_array_size = IntegerLiteral(int(cap))
    try:
        yield
    finally:
        _append.default_array_size = old


def make_problem(case: Case):
    from returns.result import Failure, Success
    from tensora.expression import parse_assignment
    from tensora.format import parse_format
    from tensora.problem import make_problem as mk

    a = parse_assignment(case.assignment)
    if not isinstance(a, Success):
        raise InternalError(ValueError(f"generator produced unparsable assignment {case.assignment!r}: {a.failure()}"))
    formats = {}
    for n, f in case.formats.items():
        r = parse_format(f)
        if not isinstance(r, Success):
            raise InternalError(ValueError(f"bad format {f!r}"))
        formats[n] = r.unwrap()
    if case.direct_problem:
        from tensora.problem import Problem

        try:
            return Problem(a.unwrap(), formats)
        except Exception as exc:  # noqa: BLE001
            raise InternalError(exc) from exc
    p = mk(a.unwrap(), formats)
    if not isinstance(p, Success):
        raise InternalError(p.failure())
    return p.unwrap()


DOCUMENTED_REFUSALS = ("DiagonalAccessError", "NoKernelFoundError")


def generate_module(problem, kinds, capacity=None):
    """The real pipeline up to the (peephole-optimised) IR Module.  Raises Refused / InternalError."""
    from returns.result import Failure, Success
    from tensora.generate import generate_module_tensora
    from tensora.kernel_type import KernelType

    kts = [KernelType[k] for k in kinds]
    with initial_capacity(capacity):
        try:
            r = generate_module_tensora(problem, kts)
        except Exception as exc:  # noqa: BLE001
            raise InternalError(exc) from exc
    if isinstance(r, Success):
        return r.unwrap()
    err = r.failure()
    if type(err).__name__ in DOCUMENTED_REFUSALS:
        raise Refused(type(err).__name__)
    raise InternalError(err)


# --------------------------------------------------------------------------- case -> machine state


def input_dims(case: Case):
    return gen.tensor_dims(case.target, case.tree, case.sizes)


def stored_full(case: Case):
    """name -> decoded coordinate->value of everything each input stores in its own format."""
    dims = input_dims(case)
    out = {}
    for name, entries in case.inputs.items():
        modes, ordering = taco.parse_fmt(case.formats[name])
        ind, vals = taco.build(entries, dims[name], modes, ordering)
        out[name] = taco.validate(dims[name], modes, ordering, ind, vals)
    return out


def setup_heap(case: Case, problem):
    """-> (heap, [Struct in parameter order], output Struct, input Structs)"""
    heap = irvm.Heap()
    dims = input_dims(case)
    out_name = case.target[1]
    structs = []
    ins = []
    out = None
    for name in problem.formats.keys():
        modes, ordering = taco.parse_fmt(case.formats[name])
        if name == out_name:
            out = heap.make_tensor(name, "output", dims[name], modes, ordering)
            structs.append(out)
        else:
            ind, vals = taco.build(case.inputs[name], dims[name], modes, ordering)
            s = heap.make_tensor(name, "input", dims[name], modes, ordering, ind, vals)
            structs.append(s)
            ins.append(s)
    return heap, structs, out, ins


def step_budget(case: Case, fn=None):
    vol = 1
    for s in case.sizes.values():
        vol *= max(s, 1)
    nnz = sum(len(v) for v in case.inputs.values())
    return 200_000 + 2_000 * (vol + nnz)


@dataclass
class IrvmResult:
    ret: int = None
    decoded: dict = None  # coord -> value of stored positions
    raw: tuple = None  # (dims, modes, ordering, indices, vals)
    counters: object = None
    machine: object = None
    heap: object = None
    out: object = None
    structs: list = None


def run_function(case: Case, problem, fn, heap=None, structs=None, out=None, ins=None, record_access=False,
                 budget=None):
    """Run one kernel function on the abstract machine with all monitors on.  Raises IRViolation /
    Unsupported; checks return value and the inputs-untouched snapshot."""
    if heap is None:
        heap, structs, out, ins = setup_heap(case, problem)
    snap = irvm.snapshot_inputs(ins)
    m = irvm.Machine(heap, budget=budget or step_budget(case), record_access=record_access)
    ret = m.run(fn, structs)
    if ret != 0:
        raise irvm.IRViolation("nonzero-return", str(ret))
    irvm.check_snapshot(ins, snap)
    res = IrvmResult(ret=ret, counters=m.c, machine=m, heap=heap, out=out, structs=structs)
    return res, (heap, structs, out, ins)


def decode_output(out_struct, lengths_exact=False):
    """Validate and decode the output structure on the heap.  Arrays longer than the structure
    they describe are allowed (C05: "at least as long"); too short or uninitialised is Malformed."""
    dims, modes, ordering, indices, vals = irvm.read_struct(out_struct)
    decoded = taco.validate(dims, modes, ordering, indices, vals, lengths_exact=lengths_exact, uninit=irvm.UNINIT,
                            vals_slack=None)
    return (dims, modes, ordering, indices, vals), decoded


def exact_lengths(raw):
    """Whether pos/crd have exactly the described lengths (evidence only, not a verdict)."""
    dims, modes, ordering, indices, vals = raw
    try:
        taco.validate(dims, modes, ordering, indices, vals, lengths_exact=True, uninit=irvm.UNINIT, vals_slack=None)
        return True
    except taco.Malformed as m:
        return not m.rule.endswith("-length")


# --------------------------------------------------------------------------- JIT executor


def jit_method(problem, capacity=None):
    """A fresh TensorMethod (LLVM back end) for the problem, bypassing the kernel cache so that the
    initial capacity in force is the one compiled in.  Raises Refused / InternalError."""
    from tensora.compile import BroadcastTargetIndexError, TensorMethod
    from tensora.desugar import DiagonalAccessError, NoKernelFoundError

    with initial_capacity(capacity):
        try:
            return TensorMethod(problem)
        except (DiagonalAccessError, NoKernelFoundError, BroadcastTargetIndexError) as exc:
            raise Refused(type(exc).__name__) from exc
        except Exception as exc:  # noqa: BLE001
            raise InternalError(exc) from exc


def jit_inputs(case: Case):
    dims = input_dims(case)
    out = {}
    for name, entries in case.inputs.items():
        modes, ordering = taco.parse_fmt(case.formats[name])
        out[name] = taco.to_tensor(entries, dims[name], modes, ordering)
    return out


# --------------------------------------------------------------------------- reference


def reference(case: Case, problem):
    """(dims, {coord: Fraction}) by refsem over the surface AST."""
    return refsem.evaluate(problem.assignment, case.inputs, case.sizes)


def compare_values(decoded: dict, ref: dict):
    """First coordinate where a decoded output (stored positions only; absent = 0) differs from
    the reference, else None.  Exact comparison (inputs are dyadic)."""
    from fractions import Fraction

    for c, want in ref.items():
        got = decoded.get(c, 0.0)
        if Fraction(got) != want:
            return c, got, want
    for c in decoded:
        if c not in ref:
            return c, decoded[c], None
    return None


# --------------------------------------------------------------------------- case streams


DIRECT_PROBLEM_P = 0.12


def build_case(rng, target, tree, formats=None, values=gen.DYADIC, capacity="random", origin="", sizes_pool=None):
    orders = gen.tensor_orders(target, tree)
    if formats is None:
        formats = gen.random_formats(rng, orders)
    # target first, then inputs in order of appearance (as make_problem orders them)
    ordered = {target[1]: formats[target[1]]}
    for n in gen.tensors_of(tree):
        ordered[n] = formats[n]
    sizes = gen.unify_index_sizes(rng, target, tree, sizes_pool or gen.SIZES_WEIGHTED)
    dims = gen.tensor_dims(target, tree, sizes)
    inputs = {n: gen.random_entries(rng, dims[n], values) for n in gen.tensors_of(tree)}
    cap = rng.choice(gen.CAPACITIES) if capacity == "random" else capacity
    direct = False
    if len(ordered) > 1 and rng.random() < DIRECT_PROBLEM_P:
        # a Problem built directly: parameters in another order than make_problem would choose
        names = list(ordered)
        rng.shuffle(names)
        ordered = {n: ordered[n] for n in names}
        direct = True
    return Case(gen.show_assignment(target, tree), ordered, sizes, inputs, cap, origin, target, tree, direct)


def curated_cases(rng, n_formats, n_inputs, include_broadcast=True, values=gen.DYADIC):
    shapes = list(gen.CURATED) + (list(gen.BROADCAST) if include_broadcast else [])
    for text in shapes:
        target, tree = gen.parse(text)
        orders = gen.tensor_orders(target, tree)
        for _ in range(n_formats):
            formats = gen.random_formats(rng, orders)
            for _ in range(n_inputs):
                yield build_case(rng, target, tree, formats, values, origin="curated")


def random_cases(rng, n, n_draws, allow_broadcast_target=True, values=gen.DYADIC, variants=True):
    for _ in range(n):
        target, tree = gen.random_assignment(rng, allow_broadcast_target=allow_broadcast_target)
        if variants:
            r = rng.random()
            if r < 0.15:
                tree = gen.commute(tree, rng)
            elif r < 0.3:
                tree = gen.reassociate(tree, rng)
            elif r < 0.4:
                target, tree, _, _ = gen.rename(target, tree, rng)
        for _ in range(n_draws):
            yield build_case(rng, target, tree, None, values, origin="random")
