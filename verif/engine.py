"""Cases, problem construction from the working tree, and the two in-process executors:
the IR abstract machine (E1) and the LLVM JIT as `evaluate()` uses it (E6)."""

from __future__ import annotations

import contextlib
import random
from dataclasses import dataclass, field

from . import gen, irvm, refsem, taco


@dataclass
class Case:
    assignment: str
    formats: dict  # name -> format text, target first
    sizes: dict  # index -> size
    inputs: dict  # name -> {coord: value} (stored entries, explicit zeros allowed)
    capacity: int | None = None
    origin: str = ""
    target: tuple = None
    tree: tuple = None
    # True: the Problem is constructed directly (tensora.problem.Problem) with the tensors in the
    # order of `formats`, which then is the kernel's parameter order - not necessarily target first.
    # False: through make_problem, which orders them by appearance in the assignment.
    direct_problem: bool = False
    # name -> list of level-order prefixes stored with an empty segment beneath (taco.build `hollow`)
    hollow: dict = None

    def hollow_of(self, name):
        return tuple(tuple(h) for h in (self.hollow or {}).get(name, ()))

    def key(self):
        return (self.assignment, tuple(sorted(self.formats.items())), tuple(sorted(self.sizes.items())),
                tuple((n, tuple(sorted(v.items()))) for n, v in sorted(self.inputs.items())), self.capacity,
                tuple(self.formats) if self.direct_problem else None,
                tuple(sorted((n, tuple(map(tuple, hs))) for n, hs in (self.hollow or {}).items())) or None)

    def describe(self):
        return {
            "assignment": self.assignment,
            "formats": dict(self.formats),
            "index_sizes": dict(self.sizes),
            "inputs": {n: {str(list(c)): v for c, v in sorted(m.items())} for n, m in self.inputs.items()},
            "initial_capacity": self.capacity,
            "origin": self.origin,
            **({"parameter_order": list(self.formats)} if self.direct_problem else {}),
            **({"stored_prefixes_with_empty_segment_below": {n: [list(h) for h in hs] for n, hs in self.hollow.items()}} if self.hollow else {}),
        }


def case_from_description(d) -> Case:
    import ast as pyast

    target, tree = gen.parse(d["assignment"])
    inputs = {n: {tuple(pyast.literal_eval(c)): v for c, v in m.items()} for n, m in d["inputs"].items()}
    formats = dict(d["formats"])
    direct = "parameter_order" in d
    if direct:
        formats = {n: formats[n] for n in d["parameter_order"]}
    hollow = {n: [tuple(h) for h in hs] for n, hs in d.get("stored_prefixes_with_empty_segment_below", {}).items()} or None
    return Case(d["assignment"], formats, dict(d["index_sizes"]), inputs, d.get("initial_capacity"),
                d.get("origin", "replay"), target, tree, direct, hollow)


# --------------------------------------------------------------------------- tensora front door


class Refused(Exception):
    """A documented refusal (not a failure)."""


class InternalError(Exception):
    """generation raised something that is not a documented refusal"""

    def __init__(self, exc):
        super().__init__(f"{type(exc).__name__}: {exc}")
        self.exc = exc


@contextlib.contextmanager
def initial_capacity(cap):
    """Rebind the module attribute the TENSORA_VERIF_INITIAL_CAPACITY hook rebinds."""
    from tensora.ir.ast import IntegerLiteral
    from tensora.iteration_graph.outputs import _append

    old = _append.default_array_size
    if cap is not None:
        _append.default_array_size = IntegerLiteral(int(cap))
    try:
        yield
    finally:
        _append.default_array_size = old


def make_problem(case: Case):
    from returns.result import Failure, Success
    from tensora.expression import parse_assignment
    from tensora.format import parse_format
    from tensora.problem import make_problem as mk

    a = parse_assignment(case.assignment)
    if not isinstance(a, Success):
        raise InternalError(ValueError(f"generator produced unparsable assignment {case.assignment!r}: {a.failure()}"))
    formats = {}
    for n, f in case.formats.items():
        r = parse_format(f)
        if not isinstance(r, Success):
            raise InternalError(ValueError(f"bad format {f!r}"))
        formats[n] = r.unwrap()
    if case.direct_problem:
        from tensora.problem import Problem

        try:
            return Problem(a.unwrap(), formats)
        except Exception as exc:  # noqa: BLE001
            raise InternalError(exc) from exc
    p = mk(a.unwrap(), formats)
    if not isinstance(p, Success):
        raise InternalError(p.failure())
    return p.unwrap()


DOCUMENTED_REFUSALS = ("DiagonalAccessError", "NoKernelFoundError")
PRELUDES = [0]


def request_prelude(case: Case):
    """History before the request proper (for about one case in five, decided by a checksum of the case):
    the SAME assignment and formats are first requested with the tensors listed in another order and
    another kind subset, as an earlier caller in the same process might have done.  What is generated
    later must not depend on it (a generator-side memo keyed without the parameter order or the kinds
    would hand back a kernel with the wrong parameter list).  The result is discarded."""
    import zlib

    h = zlib.crc32(repr(case.key()).encode())
    if h % 5 != 0 or len(case.formats) < 2:
        return
    from tensora.generate import generate_module_tensora
    from tensora.kernel_type import KernelType
    from tensora.problem import Problem

    try:
        from tensora.expression import parse_assignment
        from tensora.format import parse_format

        a = parse_assignment(case.assignment).unwrap()
        names = list(case.formats)
        r = 1 + (h // 5) % (len(names) - 1)
        names = names[r:] + names[:r]
        formats = {n: parse_format(case.formats[n]).unwrap() for n in names}
        kinds = [[KernelType.evaluate], [KernelType.compute], [KernelType.assemble, KernelType.evaluate]][(h // 7) % 3]
        with initial_capacity(case.capacity):
            generate_module_tensora(Problem(a, formats), kinds)
        PRELUDES[0] += 1
    except Exception:  # noqa: BLE001 - the prelude is only history; failures of the request proper are judged there
        pass


def generate_module(problem, kinds, capacity=None):
    """The real pipeline up to the (peephole-optimised) IR Module.  Raises Refused / InternalError."""
    from returns.result import Failure, Success
    from tensora.generate import generate_module_tensora
    from tensora.kernel_type import KernelType

    kts = [KernelType[k] for k in kinds]
    with initial_capacity(capacity):
        try:
            r = generate_module_tensora(problem, kts)
        except Exception as exc:  # noqa: BLE001
            raise InternalError(exc) from exc
    if isinstance(r, Success):
        return r.unwrap()
    err = r.failure()
    if type(err).__name__ in DOCUMENTED_REFUSALS:
        raise Refused(type(err).__name__)
    raise InternalError(err)


# --------------------------------------------------------------------------- case -> machine state


def input_dims(case: Case):
    return gen.tensor_dims(case.target, case.tree, case.sizes)


def stored_full(case: Case):
    """name -> decoded coordinate->value of everything each input stores in its own format."""
    dims = input_dims(case)
    out = {}
    for name, entries in case.inputs.items():
        modes, ordering = taco.parse_fmt(case.formats[name])
        ind, vals = taco.build(entries, dims[name], modes, ordering, hollow=case.hollow_of(name))
        out[name] = taco.validate(dims[name], modes, ordering, ind, vals)
    return out


def setup_heap(case: Case, problem):
    """-> (heap, [Struct in parameter order], output Struct, input Structs)"""
    heap = irvm.Heap()
    dims = input_dims(case)
    out_name = case.target[1]
    structs = []
    ins = []
    out = None
    for name in problem.formats.keys():
        modes, ordering = taco.parse_fmt(case.formats[name])
        if name == out_name:
            out = heap.make_tensor(name, "output", dims[name], modes, ordering)
            structs.append(out)
        else:
            ind, vals = taco.build(case.inputs[name], dims[name], modes, ordering, hollow=case.hollow_of(name))
            s = heap.make_tensor(name, "input", dims[name], modes, ordering, ind, vals)
            structs.append(s)
            ins.append(s)
    return heap, structs, out, ins


def step_budget(case: Case, fn=None):
    vol = 1
    for s in case.sizes.values():
        vol *= max(s, 1)
    if case.origin == "huge-dimensions":
        vol = 1  # work must follow the stored entries there (a handful), never the dimension sizes
    nnz = sum(len(v) for v in case.inputs.values())
    return 200_000 + 2_000 * (vol + nnz)


@dataclass
class IrvmResult:
    ret: int = None
    decoded: dict = None  # coord -> value of stored positions
    raw: tuple = None  # (dims, modes, ordering, indices, vals)
    counters: object = None
    machine: object = None
    heap: object = None
    out: object = None
    structs: list = None


def run_function(case: Case, problem, fn, heap=None, structs=None, out=None, ins=None, record_access=False,
                 budget=None):
    """Run one kernel function on the abstract machine with all monitors on.  Raises IRViolation /
    Unsupported; checks return value and the inputs-untouched snapshot."""
    if heap is None:
        heap, structs, out, ins = setup_heap(case, problem)
    snap = irvm.snapshot_inputs(ins)
    m = irvm.Machine(heap, budget=budget or step_budget(case), record_access=record_access)
    ret = m.run(fn, structs)
    if ret != 0:
        raise irvm.IRViolation("nonzero-return", str(ret))
    irvm.check_snapshot(ins, snap)
    res = IrvmResult(ret=ret, counters=m.c, machine=m, heap=heap, out=out, structs=structs)
    return res, (heap, structs, out, ins)


def decode_output(out_struct, lengths_exact=False):
    """Validate and decode the output structure on the heap.  Arrays longer than the structure
    they describe are allowed (C05: "at least as long"); too short or uninitialised is Malformed."""
    dims, modes, ordering, indices, vals = irvm.read_struct(out_struct)
    decoded = taco.validate(dims, modes, ordering, indices, vals, lengths_exact=lengths_exact, uninit=irvm.UNINIT,
                            vals_slack=None)
    return (dims, modes, ordering, indices, vals), decoded


def exact_lengths(raw):
    """Whether pos/crd have exactly the described lengths (evidence only, not a verdict)."""
    dims, modes, ordering, indices, vals = raw
    try:
        taco.validate(dims, modes, ordering, indices, vals, lengths_exact=True, uninit=irvm.UNINIT, vals_slack=None)
        return True
    except taco.Malformed as m:
        return not m.rule.endswith("-length")


# --------------------------------------------------------------------------- JIT executor


def jit_method(problem, capacity=None):
    """A fresh TensorMethod (LLVM back end) for the problem, bypassing the kernel cache so that the
    initial capacity in force is the one compiled in.  Raises Refused / InternalError."""
    from tensora.compile import BroadcastTargetIndexError, TensorMethod
    from tensora.desugar import DiagonalAccessError, NoKernelFoundError

    with initial_capacity(capacity):
        try:
            return TensorMethod(problem)
        except (DiagonalAccessError, NoKernelFoundError, BroadcastTargetIndexError) as exc:
            raise Refused(type(exc).__name__) from exc
        except Exception as exc:  # noqa: BLE001
            raise InternalError(exc) from exc


def jit_inputs(case: Case):
    dims = input_dims(case)
    out = {}
    for name, entries in case.inputs.items():
        modes, ordering = taco.parse_fmt(case.formats[name])
        out[name] = taco.to_tensor(entries, dims[name], modes, ordering, hollow=case.hollow_of(name))
    return out


# --------------------------------------------------------------------------- reference


def reference(case: Case, problem):
    """(dims, {coord: Fraction}) by refsem over the surface AST."""
    return refsem.evaluate(problem.assignment, case.inputs, case.sizes)


def compare_values(decoded: dict, ref: dict):
    """First coordinate where a decoded output (stored positions only; absent = 0) differs from
    the reference, else None.  Exact comparison (inputs are dyadic)."""
    from fractions import Fraction

    for c, want in ref.items():
        got = decoded.get(c, 0.0)
        if Fraction(got) != want:
            return c, got, want
    for c in decoded:
        if c not in ref:
            return c, decoded[c], None
    return None


# --------------------------------------------------------------------------- case streams


DIRECT_PROBLEM_P = 0.12
HOLLOW_P = 0.1


def hollow_prefixes(rng, formats, dims, inputs):
    """For some inputs: 1-2 level-order prefixes ending at a compressed level directly above another
    compressed level, not a prefix of any stored entry - stored coordinates with nothing beneath."""
    out = {}
    for name, entries in inputs.items():
        modes, ordering = taco.parse_fmt(formats[name])
        spots = [l for l in range(len(modes) - 1) if modes[l] == "s" and modes[l + 1] == "s"]
        if not spots or rng.random() < 0.4:
            continue
        lvl_dims = [dims[name][ordering[l]] for l in range(len(modes))]
        if any(d == 0 for d in lvl_dims):
            continue
        used = {tuple(c[ordering[l]] for l in range(len(modes))) for c in entries}
        hs = []
        for _ in range(rng.randint(1, 2)):
            l = rng.choice(spots)
            h = tuple(rng.randrange(lvl_dims[k]) for k in range(l + 1))
            if any(u[: l + 1] == h for u in used) or h in hs:
                continue
            # every dense level above must be able to hold the prefix (always true); compressed levels above get the coordinate stored
            hs.append(h)
        if hs:
            out[name] = hs
    return out


def build_case(rng, target, tree, formats=None, values=gen.DYADIC, capacity="random", origin="", sizes_pool=None):
    orders = gen.tensor_orders(target, tree)
    if formats is None:
        formats = gen.random_formats(rng, orders)
    # target first, then inputs in order of appearance (as make_problem orders them)
    ordered = {target[1]: formats[target[1]]}
    for n in gen.tensors_of(tree):
        ordered[n] = formats[n]
    sizes = gen.unify_index_sizes(rng, target, tree, sizes_pool or gen.SIZES_WEIGHTED)
    dims = gen.tensor_dims(target, tree, sizes)
    inputs = {n: gen.random_entries(rng, dims[n], values) for n in gen.tensors_of(tree)}
    cap = rng.choice(gen.CAPACITIES) if capacity == "random" else capacity
    hollow = None
    if rng.random() < HOLLOW_P:
        hollow = hollow_prefixes(rng, ordered, dims, inputs) or None
    direct = False
    if len(ordered) > 1 and rng.random() < DIRECT_PROBLEM_P:
        # a Problem built directly: parameters in another order than make_problem would choose
        names = list(ordered)
        rng.shuffle(names)
        ordered = {n: ordered[n] for n in names}
        direct = True
    return Case(gen.show_assignment(target, tree), ordered, sizes, inputs, cap, origin, target, tree, direct, hollow)


def curated_cases(rng, n_formats, n_inputs, include_broadcast=True, values=gen.DYADIC):
    shapes = list(gen.CURATED) + (list(gen.BROADCAST) if include_broadcast else [])
    for text in shapes:
        target, tree = gen.parse(text)
        orders = gen.tensor_orders(target, tree)
        for _ in range(n_formats):
            formats = gen.random_formats(rng, orders)
            for _ in range(n_inputs):
                yield build_case(rng, target, tree, formats, values, origin="curated")


def random_cases(rng, n, n_draws, allow_broadcast_target=True, values=gen.DYADIC, variants=True):
    for _ in range(n):
        target, tree = gen.random_assignment(rng, allow_broadcast_target=allow_broadcast_target)
        if variants:
            r = rng.random()
            if r < 0.15:
                tree = gen.commute(tree, rng)
            elif r < 0.3:
                tree = gen.reassociate(tree, rng)
            elif r < 0.4:
                target, tree, _, _ = gen.rename(target, tree, rng)
        for _ in range(n_draws):
            yield build_case(rng, target, tree, None, values, origin="random")


# --------------------------------------------------------------------------- merge-lattice stress


def lattice_case(rng, values=gen.DYADIC, max_refs=6):
    """Co-iteration stress: one loop level (or two) shared by 3-5 distinct operands in a random
    expression tree of depth <= 4 with literals, mostly compressed operands and output, a longer
    index range (5..9) and inputs whose supports are intervals of different extent - so operands run
    out at different positions and every branch of the merge lattice (which loops exist, in which
    order, which `else if` arm is taken) is driven, not only the first one."""
    order = 1 if rng.random() < 0.7 else 2
    idx = ("i",) if order == 1 else ("i", "j")
    k = rng.randint(3, 5)
    names = ["b", "c", "d", "e", "f"][:k]
    unused = list(names)

    def leaf():
        if rng.random() < 0.13:
            return ("n", rng.choice(gen.LITERALS))
        n = unused.pop(rng.randrange(len(unused))) if unused else rng.choice(names)
        ref = idx if order == 1 or rng.random() < 0.8 else (idx[1], idx[0])
        return ("t", n, ref)

    def tree(depth):
        if depth <= 0 or (depth < 3 and rng.random() < 0.3):
            return leaf()
        op = rng.choice(["+", "+", "+", "*", "*", "*", "-"])
        return (op, tree(depth - 1), tree(depth - 1))

    # the kernel has one `else if` arm per subset of co-iterated sparse references: size and generation
    # time double with every reference (9 references exceed CPython's recursion limit in the peephole
    # pass - known finding of C08), so the stress stays at <= max_refs references
    for _ in range(50):
        unused = list(names)
        e = tree(rng.randint(2, 3))
        n_refs = sum(len(v) for v in gen.tensors_of(e).values())
        if len(gen.tensors_of(e)) >= 2 and n_refs <= max_refs:
            break
    else:
        e = ("+", ("*", ("t", "b", idx), ("+", ("t", "c", idx), ("n", "1"))), ("t", "d", idx))
    target = ("t", "a", idx)
    orders = gen.tensor_orders(target, e)
    formats = {}
    for n, o in orders.items():
        if rng.random() < 0.75:
            modes = "s" * o
        else:
            modes = "".join(rng.choice("ds") for _ in range(o))
        ordering = list(range(o))
        if o == 2 and rng.random() < 0.2:
            ordering = [1, 0]
        formats[n] = taco.fmt_text(tuple(modes), tuple(ordering))
    ordered = {target[1]: formats[target[1]]}
    for n in gen.tensors_of(e):
        ordered[n] = formats[n]
    size_i = rng.randint(5, 9) if order == 1 else rng.randint(3, 5)
    sizes = {"i": size_i}
    if order == 2:
        sizes["j"] = size_i  # transposed references force a square index space
    dims = gen.tensor_dims(target, e, sizes)
    inputs = {}
    for n in gen.tensors_of(e):
        d = dims[n]
        lo = rng.randint(0, d[0] - 1)
        hi = rng.randint(lo, d[0])
        dens = rng.choice([0.5, 0.8, 1.0])
        ent = {}
        import itertools

        for c in itertools.product(*(range(x) for x in d)):
            if lo <= c[0] < hi and rng.random() < dens:
                ent[c] = 0.0 if rng.random() < 0.05 else rng.choice(values)
        inputs[n] = ent
    cap = rng.choice(gen.CAPACITIES)
    return Case(gen.show_assignment(target, e), ordered, sizes, inputs, cap, "lattice", target, e)


def lattice_cases(rng, n, draws=3, values=gen.DYADIC):
    """n assignments x `draws` input sets each (the same assignment and formats, fresh supports)."""
    for _ in range(n):
        base = lattice_case(rng, values)
        yield base
        dims = gen.tensor_dims(base.target, base.tree, base.sizes)
        for _ in range(draws - 1):
            inputs = {}
            for name in base.inputs:
                d = dims[name]
                lo = rng.randint(0, d[0] - 1)
                hi = rng.randint(lo, d[0])
                import itertools

                inputs[name] = {c: rng.choice(values) for c in itertools.product(*(range(x) for x in d))
                                if lo <= c[0] < hi and rng.random() < 0.8}
            yield Case(base.assignment, base.formats, base.sizes, inputs, rng.choice(gen.CAPACITIES), "lattice", base.target, base.tree)


# --------------------------------------------------------------------------- bounded-exhaustive small shapes


def _trees(n_leaves):
    """All binary tree shapes with n leaves, as nested tuples of None leaves."""
    if n_leaves == 1:
        return [None]
    out = []
    for k in range(1, n_leaves):
        for l in _trees(k):
            for r in _trees(n_leaves - k):
                out.append((l, r))
    return out


def small_shapes(max_leaves=5):
    """EVERY expression a(i) = <tree> with 2..max_leaves leaves over distinct vectors b,c,d,.. (at most
    one leaf a literal, at any position), every assignment of + and * to the inner nodes: 1 582 trees
    for max_leaves = 5.  This is the space in which one loop level co-iterates up to five operands, so
    every small merge lattice - and every order in which its loops and `else if` arms can be emitted -
    is in the workload by construction rather than by luck."""
    import itertools

    names = ["b", "c", "d", "e", "f"]
    out = []
    for n in range(2, max_leaves + 1):
        for shape in _trees(n):
            for ops in itertools.product("+*", repeat=n - 1):
                for lit_pos in [None] + list(range(n)):
                    leaves = []
                    k = 0
                    for pos in range(n):
                        if pos == lit_pos:
                            leaves.append(("n", "2"))
                        else:
                            leaves.append(("t", names[k], ("i",)))
                            k += 1
                    if k < 2:
                        continue
                    it_leaf = iter(leaves)
                    it_op = iter(ops)

                    def build(sh):
                        if sh is None:
                            return next(it_leaf)
                        l = build(sh[0])
                        op = next(it_op)
                        r = build(sh[1])
                        return (op, l, r)

                    out.append(build(shape))
    return out


def small_shape_cases(rng, index, n_shards, draws=5, values=gen.DYADIC, out_modes=("s",)):
    """Cases for this shard's slice of small_shapes(): all operands compressed, each shape with `draws`
    input sets whose supports are prefixes [0, h) of different length per operand (thinned), so that the
    operands run out in different orders from one draw to the next."""
    target = ("t", "a", ("i",))
    shapes = small_shapes()
    for k, tree in enumerate(shapes):
        if k % n_shards != index:
            continue
        if rng.random() < 0.25:
            # the same shape with one '+' turned into '-'
            def flip(e, state=[rng.randint(0, 3)]):
                if e[0] in ("t", "n"):
                    return e
                l = flip(e[1])
                op = e[0]
                if op == "+":
                    if state[0] == 0:
                        op = "-"
                    state[0] -= 1
                return (op, l, flip(e[2]))

            tree = flip(tree)
        names = list(gen.tensors_of(tree))
        n = 8
        for d in range(draws):
            fm = {"a": out_modes[d % len(out_modes)]}
            for nm in names:
                fm[nm] = "s"
            cuts = list(range(2, n + 1))
            rng.shuffle(cuts)
            inputs = {}
            for j, nm in enumerate(names):
                h = cuts[j % len(cuts)] if (d < 3 or d % 4 != 3) else n  # every fourth draw: full range
                dens = 1.0 if d == 0 else 0.75
                inputs[nm] = {(c,): rng.choice(values) for c in range(h) if rng.random() < dens}
            if d % 4 == 2 and names:
                inputs[names[rng.randrange(len(names))]] = {}
            yield Case(gen.show_assignment(target, tree), fm, {"i": n}, inputs, rng.choice(gen.CAPACITIES), "small-shapes", target, tree)


# --------------------------------------------------------------------------- every output format


OUTPUT_SHAPES = ["A(i,j,k,l) = B(i,j,k,l)", "A(i,j,k,l) = B(i,j,k,l) + C(i,j,k,l)", "A(i,j,k) = B(i,j,k)", "A(i,j,k) = B(i,j,k) + C(i,j,k)", "A(i,j,k) = B(i,j,k) * C(i,j,k)", "A(i,j,k) = B(i,j) * c(k)",
                 "A(i,j,k) = B(i,j,l) * C(l,k)", "A(i,j) = B(i,j,k) * c(k)", "A(i,j) = B(i,j) + C(i,j)", "A(i,j) = B(i,k) * C(k,j)"]


def output_exhaustive_cases(rng, index, n_shards, draws=3, values=gen.DYADIC, light_order4=True):
    """EVERY format of the output (all modes x all orderings: 384 for order 4, 48 for order 3, 8 for order 2) of a few
    simple shapes, inputs all-compressed / all-dense / random, and input sets with empty slices and
    fibres at every level (so position arrays get entries for parents that store nothing)."""
    k = 0
    for text in OUTPUT_SHAPES:
        target, tree = gen.parse(text)
        orders = gen.tensor_orders(target, tree)
        order4 = orders[target[1]] == 4
        if order4 and light_order4 and "+" in text:
            continue  # quick tiers: the order-4 copy only
        for out_fmt in taco.all_formats(orders[target[1]]):
            for variant in ("compressed", "dense") if (order4 and light_order4) else ("compressed", "dense", "random"):
                k += 1
                if k % n_shards != index:
                    continue
                if variant == "random":
                    fm = gen.random_formats(rng, orders)
                else:
                    fm = {n: ("s" if variant == "compressed" else "d") * o for n, o in orders.items()}
                fm[target[1]] = taco.fmt_text(*out_fmt)
                for d in range(2 if (order4 and light_order4) else draws):
                    case = build_case(rng, target, tree, dict(fm), values, origin="every-output-format", sizes_pool=[2, 3, 3, 4])
                    if d > 0:
                        dims = gen.tensor_dims(case.target, case.tree, case.sizes)
                        for n in case.inputs:
                            # whole leading slices empty: keep only coordinates whose first index is in a random subset
                            keep = {x for x in range(dims[n][0]) if rng.random() < 0.5} if dims[n] else set()
                            case.inputs[n] = {c: v for c, v in gen.random_entries(rng, dims[n], values, density=0.6).items()
                                              if not c or c[0] in keep}
                    yield case


# --------------------------------------------------------------------------- medium sizes


def medium_cases(rng, n, values=gen.DYADIC):
    """Random-grammar and curated assignments at dimension sizes 6..19 (the other generators stay at
    0..4 / 5..9) with thin inputs: anything that depends on a size threshold, on a coordinate needing
    more than a few bits, or on a stride product larger than a handful is outside the small classes."""
    import itertools

    shapes = list(gen.CURATED)
    for k in range(n):
        if k % 2:
            target, tree = gen.random_assignment(rng, allow_broadcast_target=False)
        else:
            target, tree = gen.parse(rng.choice(shapes))
        n_idx = len(set(target[2]) | set(gen.indexes_of(tree)))
        pool = [6, 9, 13, 17, 19] if n_idx <= 2 else ([6, 7, 11] if n_idx == 3 else [5, 6])
        case = build_case(rng, target, tree, None, values, origin="medium-sizes", sizes_pool=pool)
        dims = gen.tensor_dims(case.target, case.tree, case.sizes)
        for name in case.inputs:
            vol = 1
            for d in dims[name]:
                vol *= d
            dens = min(0.5, 12.0 / max(vol, 1)) if rng.random() < 0.7 else min(1.0, 40.0 / max(vol, 1))
            case.inputs[name] = {c: rng.choice(values) for c in itertools.product(*(range(d) for d in dims[name]))
                                 if rng.random() < dens}
        yield case


# --------------------------------------------------------------------------- orders 4 and 5


HIGH_ORDER_SHAPES = ["A(i,j,k,l) = B(i,j,k,l)", "A(i,j,k,l) = B(l,k,j,i)", "A(i,j,k,l) = B(i,j,k,l) + C(i,j,k,l)", "A(i,j,k,l) = B(i,j,k,l) * C(i,j,k,l)",
                     "A(i,j) = B(i,j,k,l) * C(k,l)", "a(i) = B(i,j,k,l) * c(j) * d(k) * e(l)", "A(i,j,k,l) = b(i) * c(j) * d(k) * e(l)",
                     "A(i,j,k,l) = B(i,j,k) * c(l)", "A(i,j,k,l,m) = B(i,j,k,l,m)", "A(i,j,k,l,m) = B(m,l,k,j,i) + C(i,j,k,l,m)",
                     "A(i,j,k) = B(i,j,l,m) * C(l,m,k)", "a() = B(i,j,k,l) * C(i,j,k,l)"]


def high_order_cases(rng, n, values=gen.DYADIC):
    """Tensors of order 4 and 5 (random modes and mode orderings, sizes 1..3, thin inputs)."""
    for _ in range(n):
        target, tree = gen.parse(rng.choice(HIGH_ORDER_SHAPES))
        case = build_case(rng, target, tree, None, values, origin="high-order", sizes_pool=[1, 2, 2, 3])
        yield case


# --------------------------------------------------------------------------- huge dimensions, few entries


HUGE = [46341, 50000, 65536, 1 << 20, (1 << 31) - 1]


def huge_dim_cases(rng, n, values=gen.DYADIC):
    """Dimension sizes whose products leave the int32 range (46341^2 > 2^31, 65536^2 = 2^32) on tensors that
    store only a handful of entries.  Every level that carries a huge dimension is compressed in every
    operand and in the output - element counts then fit 32-bit index arithmetic comfortably, which is the
    property's precondition - so a correct kernel never needs a product of dimensions.  Dense levels keep
    small sizes."""
    shapes = [t for t in gen.CURATED if "(" in t]
    made = 0
    tries = 0
    while made < n and tries < n * 20:
        tries += 1
        target, tree = gen.parse(rng.choice(shapes))
        idxs = []
        for i in list(target[2]) + gen.indexes_of(tree):
            if i not in idxs:
                idxs.append(i)
        if not 1 <= len(idxs) <= 3:
            continue
        orders = gen.tensor_orders(target, tree)

        def terms(e):
            """index sets of the additive terms of the expansion (a literal contributes no index)"""
            if e[0] == "t":
                return [set(e[2])]
            if e[0] == "n":
                return [set()]
            l, r = terms(e[1]), terms(e[2])
            if e[0] in "+-":
                return l + r
            return [a | b for a in l for b in r]

        # a big index must be mentioned by every additive term (nothing is broadcast along it, no literal
        # term): otherwise the RESULT would hold about as many entries as the dimension is long, which is
        # outside the property's precondition (element counts fit 32-bit arithmetic) and not runnable
        common = set(idxs)
        for t_ in terms(tree):
            common &= t_
        candidates = [i for i in idxs if i in common]
        if not candidates:
            continue
        big = {i for i in candidates if rng.random() < 0.7} or {candidates[0]}
        refs = dict(gen.tensors_of(tree))
        if any(len(r) > 1 for r in refs.values()):
            continue  # a tensor used with two index lists forces equal sizes; keep it simple
        refs = {nme: r[0] for nme, r in refs.items()}
        refs[target[1]] = target[2]
        formats = {}
        for nme, idx in refs.items():
            o = len(idx)
            ordering = list(range(o))
            if o > 1 and rng.random() < 0.3:
                rng.shuffle(ordering)
            modes = tuple("s" if idx[ordering[l]] in big else rng.choice("ds") for l in range(o))
            formats[nme] = taco.fmt_text(modes, tuple(ordering))
        sizes = {i: (rng.choice(HUGE) if i in big else rng.choice([1, 2, 3])) for i in idxs}
        ordered = {target[1]: formats[target[1]]}
        for nme in gen.tensors_of(tree):
            ordered[nme] = formats[nme]
        dims = gen.tensor_dims(target, tree, sizes)
        inputs = {}
        for nme in gen.tensors_of(tree):
            ent = {}
            for _ in range(rng.randint(0, 4)):
                c = tuple(rng.choice([0, d - 1, d // 2, max(0, d - 2), min(d - 1, 1)]) for d in dims[nme])
                ent[c] = rng.choice(values)
            inputs[nme] = ent
        made += 1
        yield Case(gen.show_assignment(target, tree), ordered, sizes, inputs, rng.choice(gen.CAPACITIES), "huge-dimensions", target, tree)


# --------------------------------------------------------------------------- many operands, few alternatives


def wide_cases(rng, n, values=gen.DYADIC):
    """6..10 operands co-iterated in one loop, arranged so that the merge lattice stays small (long
    products, at most three additive alternatives): anything that folds or pairs up a LIST of operands
    (min/max of cursors, conjunctions of conditions) sees lists of 6 and more here; the bounded-exhaustive
    small shapes stop at five leaves."""
    target = ("t", "a", ("i",))
    for _ in range(n):
        k = rng.randint(6, 10)
        names = [f"v{j}" for j in range(k)]
        rng.shuffle(names)
        leaves = [("t", nm, ("i",)) for nm in names]

        def prod(ls):
            e = ls[0]
            for x in ls[1:]:
                e = ("*", e, x)
            return e

        style = rng.choice(["prod+1", "prod+prod", "prod+1+1", "sum-in-prod", "1+prod"])
        if style == "prod+1":
            tree = ("+", prod(leaves[:-1]), leaves[-1])
        elif style == "1+prod":
            tree = ("+", leaves[0], prod(leaves[1:]))
        elif style == "prod+prod":
            cut = rng.randint(2, k - 2)
            tree = (rng.choice("+-"), prod(leaves[:cut]), prod(leaves[cut:]))
        elif style == "prod+1+1":
            tree = ("+", ("+", prod(leaves[:-2]), leaves[-2]), leaves[-1])
        else:
            tree = prod([leaves[0], ("+", leaves[1], leaves[2])] + leaves[3:])
        fm = {"a": rng.choice(["s", "s", "d"])}
        for nm in gen.tensors_of(tree):
            fm[nm] = "s" if rng.random() < 0.9 else "d"
        size = 8
        for d in range(3):
            inputs = {}
            for nm in gen.tensors_of(tree):
                lo = rng.choice([0, 0, 1, 2])
                hi = rng.randint(4, size)
                inputs[nm] = {(c,): rng.choice(values) for c in range(lo, hi) if rng.random() < 0.85}
            yield Case(gen.show_assignment(target, tree), dict(fm), {"i": size}, inputs, rng.choice(gen.CAPACITIES), "wide", target, tree)
