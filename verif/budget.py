"""Logical budget for Python code: counts function starts with sys.monitoring and raises inside
the monitored code when the budget is exceeded (wall-clock is never a verdict)."""

import sys


class BudgetExceeded(BaseException):
    pass


class CallBudget:
    TOOL = 4

    def __init__(self, limit):
        self.limit = limit
        self.count = 0
        self.max_seen = 0

    def __enter__(self):
        mon = sys.monitoring
        self.count = 0
        try:
            mon.use_tool_id(self.TOOL, "verif-budget")
        except ValueError:
            pass
        mon.register_callback(self.TOOL, mon.events.PY_START, self._cb)
        mon.set_events(self.TOOL, mon.events.PY_START)
        return self

    def _cb(self, code, offset):
        self.count += 1
        if self.count > self.limit:
            sys.monitoring.set_events(self.TOOL, 0)
            raise BudgetExceeded(f"more than {self.limit} Python function calls")

    def __exit__(self, *exc):
        mon = sys.monitoring
        mon.set_events(self.TOOL, 0)
        mon.register_callback(self.TOOL, mon.events.PY_START, None)
        try:
            mon.free_tool_id(self.TOOL)
        except ValueError:
            pass
        self.max_seen = max(self.max_seen, self.count)
        return False
