"""Positive controls: every monitor is fed one synthetic violating observation and must reject
it; a monitor that does not makes the run inconclusive (DESIGN sec. 2, verdict discipline)."""

from __future__ import annotations

from tensora.ir import ast as A
from tensora.ir import types as T

from . import irvm, taco


def _fn(body_statements, name="control"):
    return A.FunctionDefinition(
        A.Variable(name),
        [A.Declaration(A.Variable("t"), T.Pointer(T.tensor))],
        T.integer,
        A.Block(body_statements),
    )


def _run(fn, budget=10_000):
    heap = irvm.Heap()
    t = heap.make_tensor("t", "input", (3,), ("s",), (0,), [([0, 2], [0, 2])], [1.0, 2.0])
    m = irvm.Machine(heap, budget=budget)
    return m.run(fn, [t])


def irvm_controls():
    """-> dict control name -> bool (monitor fired with the expected kind)."""
    V = A.Variable
    out = {}

    def expect(name, kind, stmts, budget=10_000):
        try:
            _run(_fn(stmts), budget)
            out[name] = False
        except irvm.IRViolation as v:
            out[name] = v.kind == kind
        except Exception:  # noqa: BLE001
            out[name] = False

    arr = V("arr")
    decl = A.DeclarationAssignment(A.Declaration(arr, T.Pointer(T.float)), A.ArrayAllocate(T.float, A.IntegerLiteral(4)))
    ret = A.Return(A.IntegerLiteral(0))
    expect("oob-write", "oob-write", [decl, A.Assignment(A.ArrayIndex(arr, A.IntegerLiteral(4)), A.FloatLiteral(1.0)), ret])
    expect("uninit-read", "uninit-read", [
        decl,
        A.DeclarationAssignment(A.Declaration(V("x"), T.float), A.ArrayIndex(arr, A.IntegerLiteral(1))),
        ret,
    ])
    expect("oob-read", "oob-read", [
        A.DeclarationAssignment(A.Declaration(V("crd"), T.Pointer(T.integer)),
                                A.ArrayIndex(A.ArrayIndex(A.AttributeAccess(V("t"), "indices"), A.IntegerLiteral(0)), A.IntegerLiteral(1))),
        A.DeclarationAssignment(A.Declaration(V("x"), T.integer), A.ArrayIndex(V("crd"), A.IntegerLiteral(2))),
        ret,
    ])
    expect("write-to-input", "write-to-input", [
        A.DeclarationAssignment(A.Declaration(V("vals"), T.Pointer(T.float)), A.AttributeAccess(V("t"), "vals")),
        A.Assignment(A.ArrayIndex(V("vals"), A.IntegerLiteral(0)), A.FloatLiteral(9.0)),
        ret,
    ])
    expect("use-after-free", "use-after-free", [
        decl,
        A.DeclarationAssignment(A.Declaration(V("arr2"), T.Pointer(T.float)), A.ArrayReallocate(arr, T.float, A.IntegerLiteral(8))),
        A.Assignment(A.ArrayIndex(arr, A.IntegerLiteral(0)), A.FloatLiteral(1.0)),
        ret,
    ])
    expect("int32-overflow", "int32-overflow", [
        A.DeclarationAssignment(A.Declaration(V("x"), T.integer), A.Multiply(A.IntegerLiteral(65536), A.IntegerLiteral(65536))),
        ret,
    ])
    expect("budget", "budget", [
        A.DeclarationAssignment(A.Declaration(V("x"), T.integer), A.IntegerLiteral(0)),
        A.Loop(A.LessThan(V("x"), A.IntegerLiteral(1)), A.Block([])),
        ret,
    ], budget=1000)
    expect("no-return", "no-return", [decl])
    expect("scope-divergence", "scope-divergence", [
        A.DeclarationAssignment(A.Declaration(V("x"), T.integer), A.IntegerLiteral(1)),
        A.Branch(A.BooleanLiteral(True),
                 A.Block([A.DeclarationAssignment(A.Declaration(V("x"), T.integer), A.IntegerLiteral(2))]),
                 A.Block([])),
        A.Return(A.Subtract(V("x"), V("x"))),
    ])
    return out


def validator_controls():
    out = {}

    def expect(name, rule, *args, **kw):
        try:
            taco.validate(*args, **kw)
            out[name] = False
        except taco.Malformed as m:
            out[name] = m.rule == rule

    expect("unsorted-segment", "crd-not-strictly-increasing", (3,), ("s",), (0,), [[[0, 2], [2, 0]]], [1.0, 2.0])
    expect("duplicate-crd", "crd-not-strictly-increasing", (3,), ("s",), (0,), [[[0, 2], [1, 1]]], [1.0, 2.0])
    expect("pos-start", "pos-start", (3,), ("s",), (0,), [[[1, 2], [0, 1]]], [1.0, 2.0])
    expect("pos-decreasing", "pos-decreasing", (2, 3), ("d", "s"), (0, 1), [[], [[0, 2, 1], [0, 1]]], [1.0, 2.0])
    expect("crd-range", "crd-out-of-range", (3,), ("s",), (0,), [[[0, 1], [3]]], [1.0])
    expect("vals-short", "vals-too-short", (3,), ("s",), (0,), [[[0, 2], [0, 1]]], [1.0])
    expect("pos-short", "pos-too-short", (2, 3), ("d", "s"), (0, 1), [[], [[0, 1], [0]]], [1.0])
    expect("uninit-vals", "vals-uninitialised", (3,), ("s",), (0,), [[[0, 2], [0, 1]]], [1.0, irvm.UNINIT], uninit=irvm.UNINIT)
    # and a well-formed one must pass, with the inverse permutation applied
    try:
        d = taco.validate((2, 3, 4), ("d", "d", "d"), (2, 0, 1), [[], [], []], [float(i) for i in range(24)])
        ind, vals = taco.build({(0, 1, 2): 7.0}, (2, 3, 4), ("d", "d", "d"), (2, 0, 1))
        d2 = taco.validate((2, 3, 4), ("d", "d", "d"), (2, 0, 1), ind, vals)
        out["roundtrip-3cycle"] = d2[(0, 1, 2)] == 7.0 and sum(1 for v in d2.values() if v) == 1 and len(d) == 24
    except Exception:  # noqa: BLE001
        out["roundtrip-3cycle"] = False
    return out


def all_fired(results: dict):
    return [k for k, v in results.items() if not v]
