"""E3: independent raw codec for the taco storage format (build / read_raw / validate).

Written from the format description, not from tensora's Tensor code.  A "format" here is a pair
(modes, ordering): modes is a string/tuple of 'd'/'s' per *level*, ordering[level] = dimension
stored at that level.
"""

from __future__ import annotations

import itertools


class Malformed(Exception):
    def __init__(self, rule, detail=""):
        super().__init__(f"{rule}: {detail}")
        self.rule = rule
        self.detail = detail


def parse_fmt(text: str):
    """'ds', 'd1s0', '' -> (modes tuple, ordering tuple).  Independent of tensora's parser."""
    if text == "":
        return (), ()
    modes = []
    ordering = []
    i = 0
    explicit = any(ch.isdigit() for ch in text)
    while i < len(text):
        ch = text[i]
        if ch not in "ds":
            raise ValueError(f"bad format {text!r}")
        modes.append(ch)
        i += 1
        if explicit:
            j = i
            while j < len(text) and text[j].isdigit():
                j += 1
            if j == i:
                raise ValueError(f"bad format {text!r}")
            ordering.append(int(text[i:j]))
            i = j
    if not explicit:
        ordering = list(range(len(modes)))
    if sorted(ordering) != list(range(len(modes))):
        raise ValueError(f"bad ordering in {text!r}")
    return tuple(modes), tuple(ordering)


def fmt_text(modes, ordering) -> str:
    if tuple(ordering) == tuple(range(len(modes))):
        return "".join(modes)
    return "".join(f"{m}{o}" for m, o in zip(modes, ordering))


def all_formats(order: int):
    """Every (modes, ordering) of an order: 2^n * n! of them, in a fixed deterministic order."""
    out = []
    for modes in itertools.product("ds", repeat=order):
        for ordering in itertools.permutations(range(order)):
            out.append((tuple(modes), tuple(ordering)))
    return out


def build(stored: dict, dims, modes, ordering, fill=0.0, hollow=()):
    """Canonical (indices, vals) for the coordinate -> value map `stored` (dimension order keys).

    A coordinate is stored iff it is a key of `stored` or it lies under dense levels that must be
    filled (value `fill`).  Explicit zeros in `stored` are stored.

    `hollow`: prefixes in LEVEL order (shorter than the order, ending at a compressed level whose next
    level is compressed too) that are stored although nothing is stored beneath them - a coordinate
    with an empty segment below.  Such a tensor is well formed (pos does not decrease) and is what
    taco_structure_to_cffi / unpickling accept, but no from_* constructor produces it.
    """
    order = len(dims)
    assert len(modes) == order and len(ordering) == order
    for c in stored:
        assert len(c) == order and all(0 <= c[d] < dims[d] for d in range(order)), (c, dims)
    lvl_dims = [dims[ordering[l]] for l in range(order)]
    # entries in level order, sorted
    entries = sorted((tuple(c[ordering[l]] for l in range(order)), v) for c, v in stored.items())
    indices = []
    # positions at the current level: list of prefixes (tuples), in storage order
    prefixes = [()]
    for l in range(order):
        if modes[l] == "d":
            indices.append([])
            prefixes = [p + (i,) for p in prefixes for i in range(lvl_dims[l])]
        else:
            present = {}
            for key, _ in entries:
                present.setdefault(key[:l], set()).add(key[l])
            for h in hollow:
                if len(h) > l:
                    present.setdefault(tuple(h[:l]), set()).add(h[l])
            pos = [0]
            crd = []
            nxt = []
            for p in prefixes:
                cs = sorted(present.get(p, ()))
                crd.extend(cs)
                pos.append(len(crd))
                nxt.extend(p + (c,) for c in cs)
            indices.append([pos, crd])
            prefixes = nxt
    lookup = dict(entries)
    vals = [float(lookup.get(p, fill)) for p in prefixes]
    return indices, vals


def validate(dims, modes, ordering, indices, vals, lengths_exact=False, uninit=None, vals_slack=1):
    """The C02 contract.  Returns the decoded {coordinate (dimension order): value} of every stored
    position (explicit zeros included).  Raises Malformed.

    With lengths_exact (abstract-machine heaps, where allocation lengths are visible) pos must have
    exactly parent+1 cells and crd exactly pos[-1]; vals may have up to `vals_slack` extra cells
    (the documented scratch cell), None = any.  `uninit` is a sentinel marking never-written cells.
    """
    order = len(dims)
    if not (len(modes) == len(ordering) == len(indices) == order):
        raise Malformed("shape", f"order {order} modes {modes} ordering {ordering} levels {len(indices)}")
    if sorted(ordering) != list(range(order)):
        raise Malformed("ordering", str(ordering))
    if any(d < 0 for d in dims):
        raise Malformed("dimension", str(dims))
    n_parent = 1
    # coordinates of the positions of the current level, level order
    prefixes = [()]
    for l in range(order):
        dim = dims[ordering[l]]
        if modes[l] == "d":
            if indices[l] not in ([], None, ()):
                if len(indices[l]) != 0:
                    raise Malformed("dense-level-has-arrays", f"level {l}")
            prefixes = [p + (i,) for p in prefixes for i in range(dim)]
            n_parent *= dim
        else:
            if indices[l] is None or len(indices[l]) != 2:
                raise Malformed("compressed-level-arrays", f"level {l}")
            pos, crd = indices[l]
            if pos is None:
                raise Malformed("pos-null", f"level {l}")
            if len(pos) < n_parent + 1:
                raise Malformed("pos-too-short", f"level {l}: len {len(pos)} needs {n_parent + 1}")
            if lengths_exact and len(pos) != n_parent + 1:
                raise Malformed("pos-length", f"level {l}: len {len(pos)} expected {n_parent + 1}")
            head = pos[: n_parent + 1]
            if uninit is not None and any(x is uninit for x in head):
                raise Malformed("pos-uninitialised", f"level {l}: {head}")
            if head[0] != 0:
                raise Malformed("pos-start", f"level {l}: pos[0] = {head[0]}")
            if any(a > b for a, b in zip(head, head[1:])):
                raise Malformed("pos-decreasing", f"level {l}: {head}")
            nnz = head[-1]
            if crd is None:
                if nnz != 0:
                    raise Malformed("crd-null", f"level {l}")
                crd = []
            if len(crd) < nnz:
                raise Malformed("crd-too-short", f"level {l}: len {len(crd)} needs {nnz}")
            if lengths_exact and len(crd) != nnz:
                raise Malformed("crd-length", f"level {l}: len {len(crd)} expected {nnz}")
            body = crd[:nnz]
            if uninit is not None and any(x is uninit for x in body):
                raise Malformed("crd-uninitialised", f"level {l}: {body}")
            nxt = []
            for k, p in enumerate(prefixes):
                seg = body[head[k] : head[k + 1]]
                for a, b in zip(seg, seg[1:]):
                    if not a < b:
                        raise Malformed("crd-not-strictly-increasing", f"level {l} segment {k}: {seg}")
                for c in seg:
                    if not (0 <= c < dim):
                        raise Malformed("crd-out-of-range", f"level {l} segment {k}: {c} not in [0,{dim})")
                    nxt.append(p + (c,))
            prefixes = nxt
            n_parent = nnz
    if vals is None:
        if n_parent != 0:
            raise Malformed("vals-null", f"{n_parent} stored positions")
        vals = []
    if len(vals) < n_parent:
        raise Malformed("vals-too-short", f"len {len(vals)} needs {n_parent}")
    if lengths_exact and vals_slack is not None and len(vals) > n_parent + vals_slack:
        raise Malformed("vals-length", f"len {len(vals)} for {n_parent} stored positions")
    body = vals[:n_parent]
    if uninit is not None and any(x is uninit for x in body):
        raise Malformed("vals-uninitialised", f"{[i for i, x in enumerate(body) if x is uninit][:5]}")
    inv = [0] * order
    for l in range(order):
        inv[ordering[l]] = l
    decoded = {}
    for p, v in zip(prefixes, body):
        decoded[tuple(p[inv[d]] for d in range(order))] = v
    if len(decoded) != len(prefixes):
        raise Malformed("duplicate-coordinate", "")
    return decoded


def stored_prefix_sets(dims, modes, ordering, indices):
    """Per compressed level l: the set of level-order prefixes (length l+1) that level stores."""
    order = len(dims)
    out = {}
    prefixes = [()]
    for l in range(order):
        dim = dims[ordering[l]]
        if modes[l] == "d":
            prefixes = [p + (i,) for p in prefixes for i in range(dim)]
        else:
            pos, crd = indices[l]
            nxt = []
            for k, p in enumerate(prefixes):
                for c in crd[pos[k] : pos[k + 1]]:
                    nxt.append(p + (c,))
            prefixes = nxt
            out[l] = set(prefixes)
    return out


# ---------------------------------------------------------------------------------- tensora side


def to_tensor(stored: dict, dims, modes, ordering, hollow=()):
    """A tensora Tensor holding exactly `stored` (explicit zeros kept), through the documented
    low-level constructor taco_structure_to_cffi."""
    from tensora import Tensor
    from tensora.compile import taco_structure_to_cffi

    indices, vals = build(stored, dims, modes, ordering, hollow=hollow)
    cffi_tensor = taco_structure_to_cffi(
        indices,
        vals,
        mode_types=tuple(0 if m == "d" else 1 for m in modes),
        dimensions=tuple(dims),
        mode_ordering=tuple(ordering),
    )
    return Tensor(cffi_tensor)


def read_raw(tensor):
    """(dims, modes, ordering, indices, vals) read from the C structure, never through
    Tensor.items()/taco_indices."""
    from tensora.compile import tensor_cdefs as ffi

    t = tensor.cffi_tensor
    order = int(t.order)
    dims = [int(t.dimensions[i]) for i in range(order)]
    ordering = [int(t.mode_ordering[i]) for i in range(order)]
    modes = ["d" if int(t.mode_types[i]) == 0 else "s" for i in range(order)]
    idx = ffi.cast("int32_t***", t.indices)
    indices = []
    n = 1
    ok = True
    for l in range(order):
        if modes[l] == "d":
            indices.append([])
            n *= dims[ordering[l]]
        else:
            pos_p = idx[l][0]
            crd_p = idx[l][1]
            if pos_p == ffi.NULL:
                raise Malformed("pos-null", f"level {l}")
            pos = [int(pos_p[i]) for i in range(n + 1)]
            nnz = pos[-1]
            if nnz < 0 or nnz > 10_000_000:
                raise Malformed("pos-garbage", f"level {l}: pos[-1] = {nnz}")
            if crd_p == ffi.NULL:
                if nnz:
                    raise Malformed("crd-null", f"level {l}")
                crd = []
            else:
                crd = [int(crd_p[i]) for i in range(nnz)]
            indices.append([pos, crd])
            n = nnz
    vp = ffi.cast("double*", t.vals)
    if vp == ffi.NULL:
        if n:
            raise Malformed("vals-null", f"{n} stored positions")
        vals = []
    else:
        vals = [float(vp[i]) for i in range(n)]
    return dims, modes, ordering, indices, vals
