"""E4: deterministic workload generators (assignments, formats, inputs, capacities).

Everything is a deterministic function of the `random.Random` it is given; no Python set is ever
iterated.  Expression trees are tuples:
    ('t', name, (idx,...)) | ('n', 'literal text') | ('+', l, r) | ('-', l, r) | ('*', l, r)
"""

from __future__ import annotations

import itertools
import random

from . import taco

# --------------------------------------------------------------------------- printing trees


def show(e) -> str:
    k = e[0]
    if k == "t":
        return f"{e[1]}({','.join(e[2])})"
    if k == "n":
        return e[1]
    l, r = e[1], e[2]
    ls, rs = show(l), show(r)
    if k in "+-":
        if r[0] in "+-":
            rs = f"({rs})"
        return f"{ls} {k} {rs}"
    if l[0] in "+-":
        ls = f"({ls})"
    if r[0] in "+-*":
        rs = f"({rs})"
    return f"{ls} * {rs}"


def show_assignment(target, e) -> str:
    return f"{show(target)} = {show(e)}"


def tensors_of(e, acc=None):
    """name -> list of index tuples, in order of appearance"""
    if acc is None:
        acc = {}
    if e[0] == "t":
        acc.setdefault(e[1], []).append(e[2])
    elif e[0] != "n":
        tensors_of(e[1], acc)
        tensors_of(e[2], acc)
    return acc


def indexes_of(e, acc=None):
    if acc is None:
        acc = []
    if e[0] == "t":
        for i in e[2]:
            if i not in acc:
                acc.append(i)
    elif e[0] != "n":
        indexes_of(e[1], acc)
        indexes_of(e[2], acc)
    return acc


# --------------------------------------------------------------------------- parsing our own strings

import re

_tok = re.compile(r"\s*(?:([A-Za-z][A-Za-z0-9]*)|(\d+(?:\.\d+)?(?:[eE][+-]?\d+)?)|(.))")


def parse(text):
    """Tiny independent recursive-descent parser for the curated strings -> (target, tree)."""
    toks = []
    for m in _tok.finditer(text):
        if m.group(1):
            toks.append(("id", m.group(1)))
        elif m.group(2):
            toks.append(("num", m.group(2)))
        elif m.group(3) and m.group(3).strip():
            toks.append(("op", m.group(3)))
    pos = [0]

    def peek():
        return toks[pos[0]] if pos[0] < len(toks) else ("eof", "")

    def eat(val=None):
        t = peek()
        if val is not None and t[1] != val:
            raise ValueError(f"expected {val} at {pos[0]} in {text!r}")
        pos[0] += 1
        return t

    def tensor():
        name = eat()[1]
        eat("(")
        idx = []
        while peek()[1] != ")":
            idx.append(eat()[1])
            if peek()[1] == ",":
                eat(",")
        eat(")")
        return ("t", name, tuple(idx))

    def factor():
        t = peek()
        if t[0] == "id":
            return tensor()
        if t[0] == "num":
            eat()
            return ("n", t[1])
        eat("(")
        e = expr()
        eat(")")
        return e

    def term():
        e = factor()
        while peek()[1] == "*":
            eat()
            e = ("*", e, factor())
        return e

    def expr():
        e = term()
        while peek()[1] in ("+", "-"):
            op = eat()[1]
            e = (op, e, term())
        return e

    tgt = tensor()
    eat("=")
    e = expr()
    if peek()[0] != "eof":
        raise ValueError(f"trailing tokens in {text!r}")
    return tgt, e


# --------------------------------------------------------------------------- curated shapes

CURATED = [
    # copies, transposes, permutations
    "a(i) = b(i)",
    "A(i,j) = B(i,j)",
    "A(i,j) = B(j,i)",
    "A(i,j,k) = B(i,j,k)",
    "A(i,j,k) = B(k,i,j)",
    "A(i,j,k) = B(j,i,k)",
    "a() = b()",
    # element-wise merge_add / merge_multiply
    "a(i) = b(i) + c(i)",
    "a(i) = b(i) - c(i)",
    "a(i) = b(i) * c(i)",
    "A(i,j) = B(i,j) + C(i,j)",
    "A(i,j) = B(i,j) * C(i,j)",
    "A(i,j) = B(i,j) + C(j,i)",
    "A(i,j) = B(i,j) * C(j,i)",
    "a(i) = b(i) + c(i) + d(i)",
    "a(i) = b(i) * c(i) * d(i)",
    "a(i) = b(i) * c(i) + d(i)",
    "a(i) = b(i) * (c(i) + d(i))",
    "a(i) = (b(i) + c(i)) * d(i)",
    "a(i) = (b(i) + c(i)) * (d(i) + e(i))",
    "a(i) = b(i) - (c(i) - d(i))",
    "a(i) = b(i) - c(i) - d(i)",
    "A(i,j,k) = B(i,j,k) + C(i,j,k)",
    "A(i,j,k) = B(i,j,k) * C(i,j,k)",
    # contractions
    "a() = b(i)",
    "a() = b(i) * c(i)",
    "a() = B(i,j)",
    "a(i) = B(i,j)",
    "a(j) = B(i,j)",
    "a(i) = B(i,j) * c(j)",
    "a(j) = b(i) * C(i,j)",
    "A(i,k) = B(i,j) * C(j,k)",
    "A(i,k) = B(i,j) * C(k,j)",
    "A(i,j) = B(i,k) * C(k,j) + D(i,j)",
    "A(i,j) = D(i,j) + B(i,k) * C(k,j)",
    "a(i) = B(i,j) * c(j) + d(i)",
    "a(i) = B(i,j) * c(j) + D(i,k) * e(k)",
    "a(i) = B(i,j) + C(i,k)",
    "a(i) = B(i,j) + C(i,j)",
    "a() = b(i) + c(j)",
    "a() = b(i) + c(i)",
    "a(i) = B(i,j,k)",
    "A(i,j) = B(i,j,k) * c(k)",
    "A(i,l) = B(i,j,k) * C(j,l) * D(k,l)",
    "a(i) = B(i,j) * C(i,j)",
    "a() = B(i,j) * C(i,j)",
    "a() = B(i,j) * C(j,i)",
    # broadcast inside terms / scalars
    "A(i,j) = b(i) * c(j)",
    "A(i,j) = b(i) + c(j)",
    "A(i,j) = B(i,j) + c(j)",
    "A(i,j) = B(i,j) * c(i)",
    "a(i) = b(i) * s()",
    "a(i) = b(i) + s()",
    "a(i) = s() * b(i) + t()",
    "A(i,j) = B(i,j) * s() + C(i,j)",
    # literals
    "a(i) = 2 * b(i)",
    "a(i) = b(i) * 0.5",
    "a(i) = b(i) + 1",
    "a(i) = 3 - b(i)",
    "a(i) = b(i) * 2 + c(i) * 3",
    "a(i) = 2 * (b(i) + c(i))",
    "a() = b(i) * 2",
    "a() = b(i) + 2",
    "a(i) = 0 * b(i)",
    "a(i) = b(i) + 0",
    "a(i) = 1 * b(i)",
    "A(i,j) = 2 * B(i,k) * C(k,j)",
    "a(i) = 0.0 * b(i) + c(i)",
    # repeated tensors with different index lists
    "A(i,j) = B(i,j) + B(j,i)",
    "A(i,j) = B(i,j) * B(j,i)",
    "A(i,k) = B(i,j) * B(j,k)",
    "a(i) = b(i) * b(i)",
    "a(i) = b(i) + b(i)",
    "a() = b(i) * b(i)",
    "A(i,j) = b(i) * b(j)",
    # sums needing SumNode / mixed contraction
    "a(i) = b(i) + C(i,j) * d(j)",
    "a(i) = C(i,j) * d(j) - b(i)",
    "a() = x() + y(k) + z(k)",
    "a() = y(k) + z(k) + x()",
    "a(i) = x(i) + Y(i,k) + Z(i,k)",
    "a(i) = Y(i,k) * z(k) + W(i,k) * z(k)",
    "A(i,j) = B(i,j) + C(i,k) * D(k,j) + E(i,l) * F(l,j)",
    # operands that bring several new indexes at once; float literal as the LEFT factor; a product
    # containing a sum next to another additive term (zeroing one operand removes several leaves)
    "a(i) = b(i) * C(j,k)",
    "y(i) = A(i,j) * B(j,k,l)",
    "a() = b(i) * C(i,j,k) * d(j) * e(k)",
    "A(i,j) = 2.5 * B(i,j)",
    "a(i) = 0.5 * b(i) * c(i)",
    "a(i) = b(i) + 0.5 * c(i)",
    "a(i) = (b(i) + c(i)) * d(i) + e(i)",
    "a(i) = e(i) + (b(i) + c(i)) * d(i)",
    "a(i) = (b(i) + c(i)) * d(i) - e(i)",
    "A(i,j) = (B(i,j) + C(i,j)) * D(i,j) + E(i,j)",
    "a(i) = b(i) * c(i) + d(i) * e(i)",
    "a(i) = b(i) + 0.5 + 0.5",
    # sums of contractions: parenthesised groups on both sides, contraction bodies that are sums
    "a() = (b(i) + c(j)) + (d(k) + e(i))",
    "a() = (s() + b(i)) + (t() + c(j))",
    "a(i) = (u(i) + M(j,i)) + (v(i) + N(k,i))",
    "a(i) = b(i) - C(i,k) - D(i,k)",
    "a(i) = b(i) + C(i,k) * e(k) + D(i,k)",
    "a(i) = b(i) + (C(i,k) + 1) * d(k)",
    # product-of-sums class (K1b; judged in two steps)
    "a() = (b(i) + 2) * (c(i) + 3)",
    "a(i) = b(i) * (C(i,j) + d(i))",
    "a(i) = (B(i,j) + 1) * (C(i,j) + 1)",
]

# pure-broadcast targets: kernels exist (irvm) but tensor_method refuses by design
BROADCAST = [
    "A(i,j) = b(i)",
    "A(i,j) = b(j)",
    "a(i) = s()",
    "a(i) = 2",
    "A(i,j) = b(i) + 1",
]

DYADIC = [1.0, 2.0, 3.0, -1.0, -2.0, 0.5, -0.5, 4.0, -3.0]
ULP = [0.1, 0.2, 0.3, 1.0 / 3.0, 1e16 + 2.0, 1.1, 2.3, -0.7, 1e-3, 123456.789]
# finite extremes and IEEE specials (only where executors are compared with each other, never with exact arithmetic)
SPECIAL = [float("inf"), float("-inf"), -0.0, 5e-324, 2.2250738585072014e-308, 1.7976931348623157e308, -1.7976931348623157e308, float("nan")]
LITERALS = ["0", "1", "2", "3", "0.5", "1.5", "2.0", "0.0", "10", "1e1", "2.5e-1"]
SIZES_WEIGHTED = [0, 1, 1, 2, 2, 3, 3, 4]
CAPACITIES = [1, 2, 3, 5, 16, None]


# --------------------------------------------------------------------------- random grammar


def random_tree(rng: random.Random, pool, index_names, depth):
    """pool: list of (name, order).  Distinct indexes inside one reference (no diagonals)."""
    if depth <= 0 or rng.random() < 0.3:
        if rng.random() < 0.12:
            return ("n", rng.choice(LITERALS))
        name, order = rng.choice(pool)
        idx = tuple(rng.sample(index_names, order)) if order <= len(index_names) else tuple(index_names[:order])
        return ("t", name, idx)
    op = rng.choice(["+", "+", "-", "*", "*", "*"])
    return (op, random_tree(rng, pool, index_names, depth - 1), random_tree(rng, pool, index_names, depth - 1))


def random_assignment(rng: random.Random, max_depth=3, allow_broadcast_target=False):
    n_idx = rng.choice([1, 2, 2, 3, 3, 4])
    index_names = ["i", "j", "k", "l"][:n_idx]
    names = ["b", "c", "d", "e"]
    n_t = rng.choice([1, 2, 2, 3, 4])
    pool = []
    for n in names[:n_t]:
        order = rng.choice([0, 1, 1, 2, 2, 3])
        order = min(order, n_idx)
        pool.append((n, order))
    for _ in range(20):
        e = random_tree(rng, pool, index_names, rng.randint(1, max_depth))
        if tensors_of(e):
            break
    else:
        e = ("t", pool[0][0], tuple(index_names[: pool[0][1]]))
    used = indexes_of(e)
    k = rng.randint(0, min(3, len(used)))
    tgt_idx = rng.sample(used, k)
    if allow_broadcast_target and rng.random() < 0.15 and len(tgt_idx) < 3:
        extra = [x for x in ["i", "j", "k", "l", "m"] if x not in used]
        tgt_idx.insert(rng.randint(0, len(tgt_idx)), extra[0])
    return ("t", "a", tuple(tgt_idx)), e


# --------------------------------------------------------------------------- metamorphic variants


def commute(e, rng):
    if e[0] in ("t", "n"):
        return e
    l, r = commute(e[1], rng), commute(e[2], rng)
    if e[0] in "+*" and rng.random() < 0.5:
        return (e[0], r, l)
    return (e[0], l, r)


def reassociate(e, rng):
    if e[0] in ("t", "n"):
        return e
    l, r = reassociate(e[1], rng), reassociate(e[2], rng)
    op = e[0]
    if op in "+*" and rng.random() < 0.6:
        if l[0] == op:
            return (op, l[1], (op, l[2], r))
        if r[0] == op:
            return (op, (op, l, r[1]), r[2])
    return (op, l, r)


def rename(target, e, rng):
    tnames = [target[1]] + list(tensors_of(e).keys())
    inames = []
    for i in list(target[2]) + indexes_of(e):
        if i not in inames:
            inames.append(i)
    new_t = ["T%d" % k for k in range(len(tnames))]
    new_i = ["x%d" % k for k in range(len(inames))]
    rng.shuffle(new_t)
    rng.shuffle(new_i)
    tm = dict(zip(tnames, new_t))
    im = dict(zip(inames, new_i))

    def ren(x):
        if x[0] == "t":
            return ("t", tm[x[1]], tuple(im[i] for i in x[2]))
        if x[0] == "n":
            return x
        return (x[0], ren(x[1]), ren(x[2]))

    return ren(target), ren(e), tm, im


# --------------------------------------------------------------------------- formats and inputs


def tensor_orders(target, e):
    orders = {target[1]: len(target[2])}
    for name, refs in tensors_of(e).items():
        orders.setdefault(name, len(refs[0]))
    return orders


def random_formats(rng, orders: dict, sparse_bias=0.55):
    out = {}
    for name, order in orders.items():
        modes = tuple("s" if rng.random() < sparse_bias else "d" for _ in range(order))
        ordering = list(range(order))
        if order > 1 and rng.random() < 0.4:
            rng.shuffle(ordering)
        out[name] = taco.fmt_text(modes, tuple(ordering))
    return out


def format_plan(rng, orders: dict, n: int, target=None):
    """n format assignments for one shape: always the all-compressed and the all-dense assignment
    (the merge lattice is largest when every operand is sparse), one with a compressed output over
    dense inputs, then seeded random ones.  With `target`, random ones get a compressed target level."""
    plans = [{k: "s" * o for k, o in orders.items()}, {k: "d" * o for k, o in orders.items()}]
    if target is not None:
        plans.append({k: ("s" * o if k == target else "d" * o) for k, o in orders.items()})
    while len(plans) < n:
        f = random_formats(rng, orders)
        if target is not None and orders[target] > 0:
            for _ in range(20):
                if "s" in f[target]:
                    break
                f = random_formats(rng, orders)
        plans.append(f)
    return plans[:max(n, 2)]


def unify_index_sizes(rng, target, e, sizes_pool=SIZES_WEIGHTED):
    """Assign a size to every index such that every tensor dimension has one size (a tensor used
    with two index lists forces those indexes to share a size)."""
    idxs = []
    for i in list(target[2]) + indexes_of(e):
        if i not in idxs:
            idxs.append(i)
    parent = {i: i for i in idxs}

    def find(x):
        while parent[x] != x:
            x = parent[x]
        return x

    for _name, refs in tensors_of(e).items():
        for ref in refs[1:]:
            for a, b in zip(refs[0], ref):
                ra, rb = find(a), find(b)
                if ra != rb:
                    parent[rb] = ra
    sizes = {}
    for i in idxs:
        r = find(i)
        if r not in sizes:
            sizes[r] = rng.choice(sizes_pool)
        sizes[i] = sizes[r]
    return sizes


def tensor_dims(target, e, sizes):
    dims = {target[1]: tuple(sizes[i] for i in target[2])}
    for name, refs in tensors_of(e).items():
        dims[name] = tuple(sizes[i] for i in refs[0])
    return dims


def random_entries(rng, dims, values=DYADIC, density=None, explicit_zero_p=0.08):
    """A stored coordinate -> value map for one input (explicit zeros possible)."""
    if density is None:
        density = rng.choice([0.0, 0.3, 0.3, 0.7, 0.7, 1.0])
    out = {}
    for c in itertools.product(*(range(d) for d in dims)):
        if rng.random() < density:
            out[c] = 0.0 if rng.random() < explicit_zero_p else rng.choice(values)
    return out
