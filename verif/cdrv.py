"""E5 (part): the published C header and syntax/compile helpers for emitted C."""

from __future__ import annotations

import os
import subprocess

KINDS = ("evaluate", "assemble", "compute")


def published_header():
    from tensora.compile._cffi_ownership import taco_type_header
    from tensora.compile._compile_cffi import taco_define_header

    return "#include <stdint.h>\n#include <stdlib.h>\n" + taco_define_header + taco_type_header + "\n"


def renamed(code: str, tag: str) -> str:
    pre = "".join(f"#define {k} {tag}_{k}\n" for k in KINDS)
    post = "".join(f"#undef {k}\n" for k in KINDS)
    return pre + code + "\n" + post


def syntax_check(codes: list[str], workdir: str, tag="tu"):
    """gcc -std=c11 -pedantic-errors -fsyntax-only on a batch; -> list of (index, stderr) that fail.
    Bisects so that one bad module does not hide others."""
    bad = []

    def check(idx):
        src = published_header() + "\n".join(renamed(codes[i], f"k{i}") for i in idx)
        path = os.path.join(workdir, f"{tag}_{idx[0]}_{len(idx)}.c")
        with open(path, "w") as f:
            f.write(src)
        r = subprocess.run(["gcc", "-std=c11", "-pedantic-errors", "-fsyntax-only", "-Wno-unused-variable", "-w", path],
                           capture_output=True, text=True, timeout=300)
        os.unlink(path)
        if r.returncode == 0:
            return
        if len(idx) == 1:
            bad.append((idx[0], r.stderr[-600:]))
            return
        mid = len(idx) // 2
        check(idx[:mid])
        check(idx[mid:])

    if codes:
        check(list(range(len(codes))))
    return bad
