"""E5 (part): the published C header and syntax/compile helpers for emitted C."""

from __future__ import annotations

import os
import subprocess

KINDS = ("evaluate", "assemble", "compute", "prog")


def published_header():
    from tensora.compile._cffi_ownership import taco_type_header
    from tensora.compile._compile_cffi import taco_define_header

    return "#include <stdint.h>\n#include <stdlib.h>\n" + taco_define_header + taco_type_header + "\n"


def renamed(code: str, tag: str) -> str:
    pre = "".join(f"#define {k} {tag}_{k}\n" for k in KINDS)
    post = "".join(f"#undef {k}\n" for k in KINDS)
    return pre + code + "\n" + post


def syntax_check(codes: list[str], workdir: str, tag="tu"):
    """gcc -std=c11 -pedantic-errors -fsyntax-only on a batch; -> list of (index, stderr) that fail.
    Bisects so that one bad module does not hide others."""
    bad = []

    def check(idx):
        src = published_header() + "\n".join(renamed(codes[i], f"k{i}") for i in idx)
        path = os.path.join(workdir, f"{tag}_{idx[0]}_{len(idx)}.c")
        with open(path, "w") as f:
            f.write(src)
        r = subprocess.run(["gcc", "-std=c11", "-pedantic-errors", "-fsyntax-only", "-Wno-unused-variable", "-w", path],
                           capture_output=True, text=True, timeout=300)
        os.unlink(path)
        if r.returncode == 0:
            return
        if len(idx) == 1:
            bad.append((idx[0], r.stderr[-600:]))
            return
        mid = len(idx) // 2
        check(idx[:mid])
        check(idx[mid:])

    if codes:
        check(list(range(len(codes))))
    return bad


# --------------------------------------------------------------------------- generated driver


class TensorSpec:
    def __init__(self, name, dims, modes, ordering, indices=None, vals=None, role="input"):
        self.name = name
        self.dims = list(dims)
        self.modes = list(modes)
        self.ordering = list(ordering)
        self.indices = indices  # per level None/[] or [pos, crd]; None for an empty output
        self.vals = vals
        self.role = role


class NativeCase:
    """One execution: call `calls` (function names of `code`) in order on the same tensors.
    revalues[k] (optional) = {tensor name: new vals list} applied before call k."""

    def __init__(self, code, tensors, calls, revalues=None, label=""):
        self.code = code
        self.tensors = tensors
        self.calls = list(calls)
        self.revalues = revalues or {}
        self.label = label


DRIVER_PRELUDE = r"""
#include <stdio.h>
#include <string.h>
static void dump_tensor(const char* tag, taco_tensor_t* t) {
  printf("TENSOR %s order %d\n", tag, t->order);
  printf("DIMS");
  for (int i = 0; i < t->order; i++) printf(" %d", t->dimensions[i]);
  printf("\n");
  long n = 1;
  for (int l = 0; l < t->order; l++) {
    if (t->mode_types[l] == taco_mode_dense) {
      n *= t->dimensions[t->mode_ordering[l]];
    } else {
      int32_t* pos = t->indices[l][0];
      int32_t* crd = t->indices[l][1];
      printf("POS %d", l);
      for (long i = 0; i <= n; i++) printf(" %d", pos[i]);
      printf("\n");
      long nnz = pos[n];
      printf("CRD %d", l);
      for (long i = 0; i < nnz; i++) printf(" %d", crd[i]);
      printf("\n");
      n = nnz;
    }
  }
  printf("VALS");
  for (long i = 0; i < n; i++) printf(" %a", t->vals[i]);
  printf("\n");
}
static void* dup_block(const void* src, size_t bytes) {
  void* p = malloc(bytes ? bytes : 0);
  if (bytes) memcpy(p, src, bytes);
  return p;
}
"""


def _c_ints(xs):
    return "{" + ", ".join(str(int(x)) for x in xs) + "}" if len(xs) else "{0}"


def _c_doubles(xs):
    return "{" + ", ".join(c_double(x) for x in xs) + "}" if len(xs) else "{0}"


def _emit_case(k, case: NativeCase, tag):
    L = []
    w = L.append
    w(f"static int run_case_{k}(void) {{")
    w("  int rc = 0;")
    names = [t.name for t in case.tensors]
    snaps = []
    for t in case.tensors:
        v = f"t{k}_{t.name}"
        order = len(t.dims)
        w(f"  taco_tensor_t* {v} = malloc(sizeof(taco_tensor_t));")
        w(f"  {v}->order = {order};")
        w(f"  {{ static const int32_t d[] = {_c_ints(t.dims)}; {v}->dimensions = dup_block(d, sizeof(int32_t) * {order}); }}")
        w(f"  {{ static const int32_t d[] = {_c_ints(t.ordering)}; {v}->mode_ordering = dup_block(d, sizeof(int32_t) * {order}); }}")
        w(f"  {v}->mode_types = malloc(sizeof(taco_mode_t) * {order});")
        for l, m in enumerate(t.modes):
            w(f"  {v}->mode_types[{l}] = {'taco_mode_dense' if m == 'd' else 'taco_mode_sparse'};")
        w(f"  {v}->indices = malloc(sizeof(int32_t**) * {order});")
        for l, m in enumerate(t.modes):
            if m == "d":
                w(f"  {v}->indices[{l}] = malloc(0);")
            else:
                w(f"  {v}->indices[{l}] = malloc(sizeof(int32_t*) * 2);")
                if t.indices is None:
                    w(f"  {v}->indices[{l}][0] = NULL; {v}->indices[{l}][1] = NULL;")
                else:
                    pos, crd = t.indices[l]
                    w(f"  {{ static const int32_t d[] = {_c_ints(pos)}; {v}->indices[{l}][0] = dup_block(d, sizeof(int32_t) * {len(pos)}); }}")
                    w(f"  {{ static const int32_t d[] = {_c_ints(crd)}; {v}->indices[{l}][1] = dup_block(d, sizeof(int32_t) * {len(crd)}); }}")
                    if t.role == "input":
                        snaps.append((f"{v}->indices[{l}][0]", f"sizeof(int32_t) * {len(pos)}"))
                        snaps.append((f"{v}->indices[{l}][1]", f"sizeof(int32_t) * {len(crd)}"))
        if t.vals is None:
            w(f"  {v}->vals = NULL;")
        else:
            w(f"  {{ static const double d[] = {_c_doubles(t.vals)}; {v}->vals = dup_block(d, sizeof(double) * {len(t.vals)}); }}")
            if t.role == "input":
                snaps.append((f"{v}->vals", f"sizeof(double) * {len(t.vals)}"))
        if t.role == "input":
            snaps.append((f"{v}->dimensions", f"sizeof(int32_t) * {order}"))
            snaps.append((f"{v}->mode_ordering", f"sizeof(int32_t) * {order}"))
    args = ", ".join(f"t{k}_{n}" for n in names)
    out = [t for t in case.tensors if t.role == "output"][0]
    for ci, fn in enumerate(case.calls):
        for name, vals in case.revalues.get(ci, {}).items():
            w(f"  {{ static const double d[] = {_c_doubles(vals)}; memcpy(t{k}_{name}->vals, d, sizeof(double) * {len(vals)}); }}")
        # snapshot inputs
        for si, (expr, size) in enumerate(snaps):
            w(f"  void* snap{ci}_{si} = dup_block({expr}, {size});")
        w(f"  rc = {tag}_{fn}({args});")
        w(f'  printf("CALL {ci} {fn} RET %d\\n", rc);')
        w("  {")
        w("    int same = 1;")
        for si, (expr, size) in enumerate(snaps):
            w(f"    if (({size}) && memcmp(snap{ci}_{si}, {expr}, {size}) != 0) same = 0;")
            w(f"    free(snap{ci}_{si});")
        w(f'    printf("INPUTS_UNCHANGED %d\\n", same);')
        w("  }")
        if not (fn == "assemble"):
            w(f'  dump_tensor("{out.name}", t{k}_{out.name});')
        else:
            w(f'  printf("ASSEMBLED\\n");')
    w('  printf("DONE\\n");')
    w("  return 0;")
    w("}")
    return "\n".join(L)


def build_binary(cases: list, workdir: str, name: str, sanitizer="asan"):
    """Write one translation unit with all modules (functions renamed k<N>_*) and a main that runs
    the case given as argv[1].  -> (path of the binary | None, compiler stderr)."""
    parts = [published_header(), DRIVER_PRELUDE]
    for k, c in enumerate(cases):
        parts.append(renamed(c.code, f"k{k}"))
    for k, c in enumerate(cases):
        parts.append(_emit_case(k, c, f"k{k}"))
    parts.append("int main(int argc, char** argv) {\n  int k = atoi(argv[1]);\n  setvbuf(stdout, NULL, _IOFBF, 1 << 16);\n  switch (k) {")
    for k in range(len(cases)):
        parts.append(f"    case {k}: run_case_{k}(); break;")
    parts.append("  }\n  fflush(stdout);\n  return 0;\n}")
    src = os.path.join(workdir, f"{name}.c")
    exe = os.path.join(workdir, name)
    with open(src, "w") as f:
        f.write("\n".join(parts))
    if sanitizer == "asan":
        cmd = ["gcc", "-O1", "-g", "-std=c11", "-ffp-contract=off", "-fsanitize=address,undefined", "-fno-sanitize-recover=all",
               "-fno-omit-frame-pointer", "-w", "-o", exe, src]
    elif sanitizer == "msan":
        cmd = ["clang", "-O1", "-g", "-std=c11", "-ffp-contract=off", "-fsanitize=memory", "-fsanitize-memory-track-origins",
               "-fno-omit-frame-pointer", "-w", "-o", exe, src]
    else:
        cmd = ["gcc", "-O1", "-std=c11", "-ffp-contract=off", "-w", "-o", exe, src]
    r = subprocess.run(cmd, capture_output=True, text=True, timeout=1800)
    if r.returncode != 0:
        return None, r.stderr[-2000:]
    return exe, ""


def c_double(v):
    """C spelling of a double: hexadecimal floating constant, compiler builtins for the IEEE specials."""
    v = float(v)
    if v != v:
        return "__builtin_nan(\"\")"
    if v == float("inf"):
        return "__builtin_inf()"
    if v == float("-inf"):
        return "(-__builtin_inf())"
    return v.hex()


def run_case(exe, k, timeout=60):
    """-> (status, parsed dumps, stderr tail); status in ok | sanitizer | signal | timeout | incomplete"""
    env = dict(os.environ)
    env["ASAN_OPTIONS"] = "detect_leaks=0:abort_on_error=0:halt_on_error=1:allocator_may_return_null=1"
    env["UBSAN_OPTIONS"] = "print_stacktrace=1:halt_on_error=1"
    env["MSAN_OPTIONS"] = "halt_on_error=1"
    try:
        r = subprocess.run([exe, str(k)], capture_output=True, text=True, timeout=timeout, env=env)
    except subprocess.TimeoutExpired:
        return "timeout", None, ""
    err = r.stderr
    parsed = parse_dump(r.stdout)
    if "Sanitizer" in err or "runtime error" in err:
        return "sanitizer", parsed, err[-1500:]
    if r.returncode < 0:
        return "signal", parsed, f"signal {-r.returncode} {err[-500:]}"
    if r.returncode != 0:
        return "signal", parsed, f"exit {r.returncode} {err[-500:]}"
    if not r.stdout.rstrip().endswith("DONE"):
        return "incomplete", parsed, err[-500:]
    return "ok", parsed, ""


def parse_dump(text):
    """-> list of calls: {fn, ret, inputs_unchanged, tensor: (dims, indices{level:[pos,crd]}, vals as hex strings)}"""
    calls = []
    cur = None
    for line in text.splitlines():
        p = line.split()
        if not p:
            continue
        if p[0] == "CALL":
            cur = {"fn": p[2], "ret": int(p[4]), "inputs_unchanged": None, "tensor": None}
            calls.append(cur)
        elif p[0] == "INPUTS_UNCHANGED" and cur is not None:
            cur["inputs_unchanged"] = p[1] == "1"
        elif p[0] == "TENSOR" and cur is not None:
            cur["tensor"] = {"dims": None, "pos": {}, "crd": {}, "vals": None}
        elif p[0] == "DIMS" and cur is not None and cur["tensor"] is not None:
            cur["tensor"]["dims"] = [int(x) for x in p[1:]]
        elif p[0] == "POS" and cur is not None and cur["tensor"] is not None:
            cur["tensor"]["pos"][int(p[1])] = [int(x) for x in p[2:]]
        elif p[0] == "CRD" and cur is not None and cur["tensor"] is not None:
            cur["tensor"]["crd"][int(p[1])] = [int(x) for x in p[2:]]
        elif p[0] == "VALS" and cur is not None and cur["tensor"] is not None:
            cur["tensor"]["vals"] = [float.fromhex(x) if x not in ("nan", "-nan", "inf", "-inf") else float(x) for x in p[1:]]
    return calls
