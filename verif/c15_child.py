"""Child process of C15: generates code for a list of requests in a given order under the hash
seed it was started with, and reports SHA-256 of every text plus CLI/library and cache
comparisons made inside this process."""

import hashlib
import json
import os
import sys
import tempfile


def main():
    from verif import linecov

    linecov.start_from_env()
    spec = json.load(open(sys.argv[1]))
    out_path = sys.argv[2]
    from returns.result import Success
    from tensora.expression import parse_assignment
    from tensora.format import parse_format
    from tensora.generate import Language, generate_code
    from tensora.kernel_type import KernelType
    from tensora.problem import make_problem

    requests = spec["requests"]
    order = spec["order"]
    shas = {}
    texts = {}
    repeat_mismatch = []
    for i in order + order:  # every problem requested twice
        rq = requests[i]
        a = parse_assignment(rq["assignment"]).unwrap()
        fmts = {n: parse_format(f).unwrap() for n, f in rq["formats"].items()}
        p = make_problem(a, fmts).unwrap()
        r = generate_code(p, [KernelType[k] for k in rq["kinds"]], Language[rq["language"]])
        if isinstance(r, Success):
            text = r.unwrap()
            h = hashlib.sha256(text.encode()).hexdigest()
            texts[i] = text
        else:
            h = "FAIL:" + type(r.failure()).__name__
        if str(i) in shas and shas[str(i)] != h:
            repeat_mismatch.append(i)
        shas[str(i)] = h

    cli = {"checked": 0, "mismatch": []}
    if spec.get("cli"):
        from typer.testing import CliRunner
        from tensora.cli import app

        runner = CliRunner()
        for i in spec["cli"]:
            rq = requests[i]
            if i not in texts:
                continue
            target_name = rq["assignment"].split("(")[0].strip()
            args = [rq["assignment"]]
            for n, f in rq["formats"].items():
                if rq.get("omit_dense") and set(f) <= set("d"):
                    continue  # unmentioned tensors must be assumed dense
                args += ["-f", f"{n}:{f}"]
            # defaults: one compute kernel, language c - omitted on every second probe
            use_defaults = (i % 2 == 0)
            if not (use_defaults and rq["kinds"] == ["compute"]):
                for k in rq["kinds"]:
                    args += ["-t", k]
            if not (use_defaults and rq["language"] == "c"):
                args += ["-l", rq["language"]]
            res = runner.invoke(app, args)
            cli["checked"] += 1
            if res.exit_code != 0 or res.stdout != texts[i] + "\n":
                cli["mismatch"].append({"request": rq, "exit": res.exit_code, "how": "stdout", "stdout_head": res.stdout[:200]})
                continue
            with tempfile.TemporaryDirectory() as d:
                path = os.path.join(d, "out.txt")
                res = runner.invoke(app, args + ["-o", path])
                if res.exit_code != 0 or not os.path.exists(path) or open(path).read() != texts[i]:
                    cli["mismatch"].append({"request": rq, "exit": res.exit_code, "how": "-o file"})

    # cache invisibility: warm cache vs cleared cache, raw arrays
    cache = {"checked": 0, "mismatch": [], "results": {}}
    if spec.get("evals"):
        sys.path.insert(0, os.path.dirname(os.path.dirname(os.path.abspath(__file__))))
        from verif import engine, taco
        from tensora import evaluate
        from tensora.compile import _porcelain

        for j, d in enumerate(spec["evals"]):
            case = engine.case_from_description(d)
            ins = engine.jit_inputs(case)
            out_fmt = case.formats[case.target[1]]
            try:
                r1 = taco.read_raw(evaluate(case.assignment, out_fmt, **ins))
                r2 = taco.read_raw(evaluate(case.assignment, out_fmt, **ins))  # warm
                _porcelain.cachable_tensor_method.cache_clear()
                r3 = taco.read_raw(evaluate(case.assignment, out_fmt, **ins))  # freshly compiled
            except Exception as exc:  # noqa: BLE001
                cache["results"][str(j)] = "EXC:" + type(exc).__name__
                continue
            # same assignment text requested again with the keyword arguments in the other order and the formats of two
            # same-order inputs exchanged: a different problem, which must not be served the earlier kernel
            try:
                ins_names = [n for n in case.formats if n != case.target[1]]
                pair = None
                for x in ins_names:
                    for y in ins_names:
                        if x < y and len(case.formats[x]) == len(case.formats[y]) and case.formats[x] != case.formats[y] \
                                and taco.parse_fmt(case.formats[x])[0].__len__() == taco.parse_fmt(case.formats[y])[0].__len__():
                            pair = (x, y)
                if pair is not None:
                    import dataclasses

                    f2 = dict(case.formats)
                    f2[pair[0]], f2[pair[1]] = case.formats[pair[1]], case.formats[pair[0]]
                    case2 = dataclasses.replace(case, formats=f2, direct_problem=False, hollow=None)
                    ins2 = engine.jit_inputs(case2)
                    rev = {n: ins2[n] for n in reversed(list(ins2))}
                    r4 = taco.read_raw(evaluate(case.assignment, out_fmt, **rev))
                    _, ref = engine.reference(case2, engine.make_problem(case2))
                    diff = engine.compare_values(taco.validate(*r4), ref)
                    r5 = taco.read_raw(evaluate(case.assignment, out_fmt, **ins))
                    cache["swapped_format_requests"] = cache.get("swapped_format_requests", 0) + 1
                    if diff is not None or r5 != r1:
                        cache["mismatch"].append({"case": d, "how": "same assignment, formats exchanged between two inputs, keyword order reversed",
                                                  "exchanged": list(pair), "difference": repr(diff)[:200], "original_again_equal": r5 == r1})
            except Exception as exc:  # noqa: BLE001
                if type(exc).__name__ in ("NoKernelFoundError", "DiagonalAccessError", "BroadcastTargetIndexError"):
                    cache["swapped_format_requests_refused"] = cache.get("swapped_format_requests_refused", 0) + 1  # a documented refusal of the other problem
                else:
                    cache["mismatch"].append({"case": d, "how": "same assignment, formats exchanged between two inputs, keyword order reversed",
                                              "raised": f"{type(exc).__name__}: {exc}"[:300]})
            cache["checked"] += 1
            if not (r1 == r2 == r3):
                cache["mismatch"].append({"case": d, "first": repr(r1)[:300], "warm": repr(r2)[:300], "cleared": repr(r3)[:300]})
            cache["results"][str(j)] = hashlib.sha256(repr(r1).encode()).hexdigest()
    json.dump({"shas": shas, "repeat_mismatch": repeat_mismatch, "cli": cli, "cache": cache,
               "hashseed": os.environ.get("PYTHONHASHSEED")}, open(out_path, "w"))


main()
