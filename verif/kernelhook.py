"""Observation point "kernel entry": the compiled function a TensorMethod calls.

The repository keeps it in the private attribute `_evaluate`, assigned in `__init__` today.  To
stay attached if that assignment moves (e.g. to a lazy first call), the hook is a subclass whose
`_evaluate` is a property: whatever the class assigns - whenever it does - is wrapped.  If the
attribute is renamed or the class grows __slots__, nothing is wrapped and the positive control of
the check (a consistent call must be seen entering the kernel) makes the run inconclusive."""

from __future__ import annotations


def hooked_class(wrap):
    """wrap(fn, method) -> callable used in place of fn.  Returns a TensorMethod subclass."""
    from tensora.compile._tensor_method import TensorMethod

    class HookedTensorMethod(TensorMethod):
        @property
        def _evaluate(self):
            return self.__dict__.get("_verif_kernel")

        @_evaluate.setter
        def _evaluate(self, fn):
            self.__dict__["_verif_raw_kernel"] = fn
            self.__dict__["_verif_kernel"] = None if fn is None else wrap(fn, self)

    HookedTensorMethod.__name__ = "TensorMethod"
    HookedTensorMethod.__qualname__ = "TensorMethod"
    return HookedTensorMethod


class patched_porcelain:
    """Context manager: evaluate()/tensor_method() build their kernels through the hooked class."""

    def __init__(self, cls):
        self.cls = cls

    def __enter__(self):
        from tensora.compile import _porcelain

        self.mod = _porcelain
        self.orig = _porcelain.TensorMethod
        _porcelain.cachable_tensor_method.cache_clear()
        _porcelain.TensorMethod = self.cls
        return self

    def __exit__(self, *exc):
        self.mod.TensorMethod = self.orig
        self.mod.cachable_tensor_method.cache_clear()
        return False
