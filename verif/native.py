"""Bridges between generated cases and the native executors: emitted C under sanitizers (cdrv)
and module-level functions through the LLVM JIT (compile_module), with results in one comparable
form: {"dims": [...], "pos": {level: [...]}, "crd": {level: [...]}, "vals": [...]} restricted to
the cells the structure describes."""

from __future__ import annotations

from . import cdrv, engine, irvm, taco


def tensor_specs(case, problem):
    dims = engine.input_dims(case)
    out_name = case.target[1]
    specs = []
    for name in problem.formats.keys():
        modes, ordering = taco.parse_fmt(case.formats[name])
        if name == out_name:
            specs.append(cdrv.TensorSpec(name, dims[name], modes, ordering, None, None, "output"))
        else:
            ind, vals = taco.build(case.inputs[name], dims[name], modes, ordering, hollow=case.hollow_of(name))
            specs.append(cdrv.TensorSpec(name, dims[name], modes, ordering, ind, vals, "input"))
    return specs


def described(raw, uninit_ok=False):
    """Comparable form of (dims, modes, ordering, indices, vals) from the abstract machine."""
    dims, modes, ordering, indices, vals = raw
    out = {"dims": list(dims), "pos": {}, "crd": {}, "vals": None}
    n = 1
    for l, m in enumerate(modes):
        if m == "d":
            n *= dims[ordering[l]]
        else:
            pos, crd = indices[l]
            out["pos"][l] = list(pos[: n + 1])
            n = pos[n]
            out["crd"][l] = list((crd or [])[:n])
    out["vals"] = list((vals or [])[:n])
    return out


def same_bits(a, b):
    """Bit-identical values, except that the sign of zero may differ."""
    import struct

    if a is None or b is None:
        return a is b
    if len(a) != len(b):
        return False
    for x, y in zip(a, b):
        if x is irvm.UNINIT or y is irvm.UNINIT:
            return False
        if x == 0.0 and y == 0.0:
            continue
        if x != x and y != y:
            continue  # NaN: sign and payload are not prescribed by either language
        if struct.pack("<d", x) != struct.pack("<d", y):
            return False
    return True


def same_described(a, b):
    """-> None if equal else a short description of the first difference."""
    if a["dims"] != b["dims"]:
        return f"dims {a['dims']} vs {b['dims']}"
    if {int(k): v for k, v in a["pos"].items()} != {int(k): v for k, v in b["pos"].items()}:
        return f"pos {a['pos']} vs {b['pos']}"
    if {int(k): v for k, v in a["crd"].items()} != {int(k): v for k, v in b["crd"].items()}:
        return f"crd {a['crd']} vs {b['crd']}"
    if not same_bits(a["vals"], b["vals"]):
        return f"vals {a['vals']} vs {b['vals']}"
    return None


# --------------------------------------------------------------------------- JIT of module-level functions


class JitModule:
    """compile_module(module) as TensorMethod does, exposing every function by name."""

    def __init__(self, module):
        from tensora.compile._compile_llvm import compile_module

        self.engine = compile_module(module)
        self.module = module

    def fn(self, name, n_params):
        from tensora.compile import tensor_cdefs

        addr = self.engine.get_function_address(name)
        return tensor_cdefs.cast(f"int32_t (*)({', '.join(['void *'] * n_params)})", addr)


class GuardedBlock:
    """A block whose last byte is the last byte of a page followed by a PROT_NONE page: a read or
    write past its end faults (the guard-page array of DESIGN sec. 3/C06 for JIT code)."""

    PAGE = 4096

    def __init__(self, nbytes):
        import ctypes
        import mmap as _mmap

        libc = ctypes.CDLL(None, use_errno=True)
        libc.mmap.restype = ctypes.c_void_p
        libc.mmap.argtypes = [ctypes.c_void_p, ctypes.c_size_t, ctypes.c_int, ctypes.c_int, ctypes.c_int, ctypes.c_long]
        libc.mprotect.argtypes = [ctypes.c_void_p, ctypes.c_size_t, ctypes.c_int]
        libc.munmap.argtypes = [ctypes.c_void_p, ctypes.c_size_t]
        pages = (nbytes + self.PAGE - 1) // self.PAGE + 1
        self.size = (pages + 1) * self.PAGE
        base = libc.mmap(None, self.size, _mmap.PROT_READ | _mmap.PROT_WRITE, _mmap.MAP_PRIVATE | _mmap.MAP_ANONYMOUS, -1, 0)
        if base in (None, ctypes.c_void_p(-1).value):
            raise MemoryError("mmap failed")
        self.base = base
        self.libc = libc
        guard = base + pages * self.PAGE
        if libc.mprotect(guard, self.PAGE, 0) != 0:
            raise MemoryError("mprotect failed")
        self.addr = guard - nbytes

    def close(self):
        self.libc.munmap(self.base, self.size)


def make_cffi_tensor(spec: cdrv.TensorSpec, keep: list, guard=False):
    """A cffi taco_tensor_t* from a TensorSpec without tensora's validation (the random IR programs
    use arbitrary int arrays as 'crd')."""
    from tensora.compile import allocate_taco_structure, tensor_cdefs as ffi

    t = allocate_taco_structure(tuple(0 if m == "d" else 1 for m in spec.modes), tuple(spec.dims), tuple(spec.ordering))
    if spec.role == "input":
        idx = ffi.cast("int32_t***", t.indices)
        for l, m in enumerate(spec.modes):
            if m == "s":
                pos, crd = spec.indices[l]
                p = ffi.new("int32_t[]", list(pos) if len(pos) else 1)
                keep.append(p)
                idx[l][0] = p
                if guard and len(crd):
                    g = GuardedBlock(4 * len(crd))
                    keep.append(g)
                    c = ffi.cast("int32_t*", g.addr)
                    for i, x in enumerate(crd):
                        c[i] = int(x)
                else:
                    c = ffi.new("int32_t[]", list(crd) if len(crd) else 1)
                    keep.append(c)
                idx[l][1] = c
        if guard and len(spec.vals):
            g = GuardedBlock(8 * len(spec.vals))
            keep.append(g)
            v = ffi.cast("double*", g.addr)
            for i, x in enumerate(spec.vals):
                v[i] = float(x)
            t.vals = v
        else:
            v = ffi.new("double[]", [float(x) for x in spec.vals] if len(spec.vals) else 1)
            keep.append(v)
            t.vals = ffi.cast("double*", v)
    keep.append(t)
    return t


def read_described_cffi(t):
    from tensora.compile import tensor_cdefs as ffi

    order = int(t.order)
    dims = [int(t.dimensions[i]) for i in range(order)]
    ordering = [int(t.mode_ordering[i]) for i in range(order)]
    out = {"dims": dims, "pos": {}, "crd": {}, "vals": None}
    idx = ffi.cast("int32_t***", t.indices)
    n = 1
    for l in range(order):
        if int(t.mode_types[l]) == 0:
            n *= dims[ordering[l]]
        else:
            pos = [int(idx[l][0][i]) for i in range(n + 1)]
            out["pos"][l] = pos
            n = pos[-1]
            if n < 0 or n > 10_000_000:
                raise taco.Malformed("pos-garbage", str(n))
            out["crd"][l] = [int(idx[l][1][i]) for i in range(n)]
    vp = ffi.cast("double*", t.vals)
    out["vals"] = [float(vp[i]) for i in range(n)]
    return out


def jit_run(jm: JitModule, specs, calls, revalues=None, guard=False):
    """Run `calls` in order on fresh cffi tensors; -> list of {fn, ret, inputs_unchanged, tensor}."""
    from tensora.compile import take_ownership_of_arrays, tensor_cdefs as ffi

    keep = []
    tensors = [make_cffi_tensor(s, keep, guard) for s in specs]
    out_i = [i for i, s in enumerate(specs) if s.role == "output"][0]
    results = []
    revalues = revalues or {}
    by_name = {s.name: (s, t) for s, t in zip(specs, tensors)}
    for ci, fn in enumerate(calls):
        for name, vals in revalues.get(ci, {}).items():
            s, t = by_name[name]
            vp = ffi.cast("double*", t.vals)
            for i, x in enumerate(vals):
                vp[i] = float(x)
            s.vals = list(vals)
        before = [_input_snapshot(s, t) for s, t in zip(specs, tensors) if s.role == "input"]
        ret = jm.fn(fn, len(specs))(*tensors)
        after = [_input_snapshot(s, t) for s, t in zip(specs, tensors) if s.role == "input"]
        rec = {"fn": fn, "ret": int(ret), "inputs_unchanged": before == after, "tensor": None}
        if fn != "assemble":
            rec["tensor"] = read_described_cffi(tensors[out_i])
        results.append(rec)
    try:
        take_ownership_of_arrays(tensors[out_i])
    except Exception:  # noqa: BLE001
        pass
    for k in keep:
        if isinstance(k, GuardedBlock):
            k.close()
    return results


def _input_snapshot(spec, t):
    from tensora.compile import tensor_cdefs as ffi

    idx = ffi.cast("int32_t***", t.indices)
    snap = []
    for l, m in enumerate(spec.modes):
        if m == "s":
            pos, crd = spec.indices[l]
            snap.append([int(idx[l][0][i]) for i in range(len(pos))])
            snap.append([int(idx[l][1][i]) for i in range(len(crd))])
    vp = ffi.cast("double*", t.vals)
    snap.append([float(vp[i]).hex() for i in range(len(spec.vals))])  # hex: NaN must compare equal to itself
    snap.append([int(t.dimensions[i]) for i in range(len(spec.dims))])
    return snap
