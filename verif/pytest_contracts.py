"""E9: contracts on the real functions while the repository's own tests run.

Loaded as a pytest plugin (`-p verif.pytest_contracts`, PYTHONPATH=/verif:/verif/.deps).  It
decorates, with icontract.ensure / icontract.snapshot and *named* condition functions:

  TensorMethod.__call__  post: result well-formed (C02), no phantom coordinate (C03), values and
                         dimensions equal the reference semantics (C01), inputs unchanged (C05)
  Tensor.from_aos        post: raw structure canonical and content = summed input (C09)

Conditions record into the JSON-lines file named by VERIF_CONTRACT_LOG and return True (a raising
contract would abort what it observes and change the outcome of the repository's tests).
"""

from __future__ import annotations

import json
import math
import os
from fractions import Fraction

LOG = os.environ.get("VERIF_CONTRACT_LOG")


def _emit(rec):
    if LOG:
        with open(LOG, "a") as f:
            f.write(json.dumps(rec, default=repr) + "\n")


def _raw_inputs(kwargs):
    from tensora import Tensor
    from . import taco

    out = {}
    for n, t in kwargs.items():
        if isinstance(t, Tensor):
            out[n] = taco.read_raw(t)
    return out


def _too_large(kwargs):
    from tensora import Tensor

    for t in kwargs.values():
        if isinstance(t, Tensor):
            vol = 1
            for d in t.dimensions:
                vol *= max(d, 1)
            if vol > 4096:
                return True
    return False


def snapshot_inputs(self, args, kwargs):
    try:
        if _too_large(kwargs):
            return {"__skipped__": "large"}
        return _raw_inputs(kwargs)
    except Exception as exc:  # noqa: BLE001
        return {"__error__": repr(exc)}


def result_meets_c01_c02_c03_c05(self, args, kwargs, result, OLD):
    from tensora import Tensor
    from . import refsem, taco

    rec = {"contract": "TensorMethod.__call__", "assignment": str(self._problem.assignment),
           "formats": {n: f.deparse() for n, f in self._problem.formats.items()}, "violations": []}
    try:
        if args or not all(isinstance(t, Tensor) for t in kwargs.values()):
            rec["skipped"] = "positional or non-tensor arguments"
            _emit(rec)
            return True
        before = OLD.inputs
        if "__skipped__" in before:
            rec["skipped"] = "inputs larger than 4096 cells: the exact reference would dominate the test run"
            _emit(rec)
            return True
        after = _raw_inputs(kwargs)
        if before != after:
            rec["violations"].append({"property": "C05", "class": "input-modified"})
        try:
            raw = taco.read_raw(result)
            decoded = taco.validate(*raw)
        except taco.Malformed as m:
            rec["violations"].append({"property": "C02", "class": f"malformed:{m.rule}", "detail": m.detail})
            _emit(rec)
            return True
        rec["c02_validated"] = True
        inputs = {n: taco.validate(*r) for n, r in after.items()}
        sizes = {}
        for index, parts in self._problem.assignment.expression.index_participants().items():
            name, dim = sorted(parts)[0]
            sizes[index] = after[name][0][dim]
        dims, ref = refsem.evaluate(self._problem.assignment, inputs, sizes)
        exact = True
        if tuple(raw[0]) != tuple(dims):
            rec["violations"].append({"property": "C01", "class": "dimensions", "got": raw[0], "want": list(dims)})
        else:
            for c, want in ref.items():
                got = decoded.get(c, 0.0)
                if Fraction(got) != want:
                    exact = False
                    if not math.isclose(got, float(want), rel_tol=1e-9, abs_tol=1e-12):
                        from tensora.desugar import desugar_assignment

                        known = refsem.contraction_wraps_term_lacking_index(desugar_assignment(self._problem.assignment))
                        rec["violations"].append({"property": "C01", "class": "value", "coordinate": list(c), "got": got, "want": float(want),
                                                  "known_key": "contraction-around-product-of-sums" if known else None})
                        break
        rec["c01_compared"] = "exact" if exact else "isclose"
        if "s" in raw[1]:
            sup = refsem.support(self._problem.assignment, inputs, sizes)
            order = len(raw[0])
            ordering = raw[2]
            sup_level = [tuple(c[ordering[l]] for l in range(order)) for c in sup]
            for l, prefixes in sorted(taco.stored_prefix_sets(raw[0], raw[1], ordering, raw[3]).items()):
                allowed = {p[: l + 1] for p in sup_level}
                if prefixes - allowed:
                    rec["violations"].append({"property": "C03", "class": "phantom", "level": l})
                    break
            rec["c03_checked"] = True
    except Exception as exc:  # noqa: BLE001
        rec["monitor_error"] = f"{type(exc).__name__}: {exc}"[:300]
    _emit(rec)
    return True


def structure_is_canonical_and_lossless(coordinates, values, dimensions, format, result):
    from . import taco

    rec = {"contract": "Tensor.from_aos", "violations": []}
    try:
        raw = taco.read_raw(result)
        decoded = taco.validate(*raw)
        rec["c09_validated"] = True
        rec["format"] = taco.fmt_text(raw[1], raw[2])
        dims = raw[0]
        if all(len(c) == len(dims) and all(0 <= x < d for x, d in zip(c, dims)) for c in coordinates):
            want = {}
            for c, v in zip(coordinates, values):
                want[tuple(int(x) for x in c)] = want.get(tuple(int(x) for x in c), 0.0) + float(v)
            want = {c: v for c, v in want.items() if v != 0}
            got = {c: v for c, v in decoded.items() if v != 0}
            if got != want:
                rec["violations"].append({"property": "C09", "class": "raw-content", "got": str(got)[:200], "want": str(want)[:200]})
            dok = result.to_dok()
            if dok != want:
                rec["violations"].append({"property": "C09", "class": "to_dok", "got": str(dok)[:200], "want": str(want)[:200]})
            rec["c09_content_compared"] = True
    except taco.Malformed as m:
        rec["violations"].append({"property": "C09", "class": f"not-canonical:{m.rule}", "detail": m.detail})
    except Exception as exc:  # noqa: BLE001
        rec["monitor_error"] = f"{type(exc).__name__}: {exc}"[:300]
    _emit(rec)
    return True


_installed = False


def install():
    global _installed
    if _installed:
        return
    _installed = True
    try:
        import icontract
    except ImportError:
        _emit({"contract": "install", "error": "icontract not importable"})
        return
    from tensora.compile import _tensor_method

    cls = _tensor_method.TensorMethod
    orig = cls.__call__

    def call(self, *args, **kwargs):
        return orig(self, *args, **kwargs)

    # icontract needs explicit parameters: adapt (*args, **kwargs) through a thin shim
    def shim(self, args, kwargs):
        return orig(self, *args, **kwargs)

    checked = icontract.snapshot(snapshot_inputs, name="inputs")(
        icontract.ensure(result_meets_c01_c02_c03_c05, error=lambda: AssertionError("unreachable"))(shim))

    def wrapped(self, *args, **kwargs):
        return checked(self, args, kwargs)

    cls.__call__ = wrapped

    from tensora import tensor as tensor_module

    T = tensor_module.Tensor
    orig_aos = T.__dict__["from_aos"].__func__

    def from_aos(coordinates, values, dimensions, format):
        return orig_aos(coordinates, values, dimensions=dimensions, format=format)

    checked_aos = icontract.ensure(structure_is_canonical_and_lossless, error=lambda: AssertionError("unreachable"))(from_aos)

    def from_aos_materialised(coordinates, values, *, dimensions=None, format=None):
        coordinates = [tuple(c) for c in coordinates]
        values = list(values)
        return checked_aos(coordinates, values, dimensions, format)

    T.from_aos = staticmethod(from_aos_materialised)
    _emit({"contract": "install", "ok": True})


def pytest_configure(config):
    install()
