"""Growth at the DEFAULT initial capacity (2^20 elements): kernels whose output stores more than
2^20 entries, run through the LLVM JIT exactly as evaluate() runs them (no capacity hook), optionally
under the LD_PRELOAD interposer's guard (heap corruption = crash of this child, reported by the
parent).  The result is read raw, validated by the independent codec and compared with the expected
entries.

argv: out.json"""

import json
import os
import sys
import time

sys.path.insert(0, os.path.dirname(os.path.dirname(os.path.abspath(__file__))))


def main():
    from verif import linecov

    linecov.start_from_env()
    from tensora import Tensor, evaluate
    from tensora.compile import taco_structure_to_cffi

    from verif import taco

    out = {"cases": [], "problems": []}
    n = (1 << 20) + 4099  # beyond the default capacity of every growable array

    def vec(offset, step, count, dim):
        crd = list(range(offset, offset + step * count, step))
        vals = [float(1 + (k % 7)) for k in range(count)]
        t = Tensor(taco_structure_to_cffi([[[0, count], crd]], vals, mode_types=(1,), dimensions=(dim,), mode_ordering=(0,)))
        return t, dict(zip(((c,) for c in crd), vals))

    def check(label, result, dims, modes, expected):
        t0 = time.time()
        try:
            raw = taco.read_raw(result)
            decoded = taco.validate(*raw)
        except taco.Malformed as m:
            out["problems"].append({"case": label, "malformed": m.rule, "detail": str(m.detail)[:200]})
            return
        if tuple(raw[0]) != tuple(dims) or tuple(raw[1]) != tuple(modes):
            out["problems"].append({"case": label, "header": [list(raw[0]), list(raw[1])]})
            return
        got = {c: v for c, v in decoded.items() if v != 0}
        if got != expected:
            bad = [c for c in expected if got.get(c) != expected[c]][:3] + [c for c in got if c not in expected][:3]
            out["problems"].append({"case": label, "stored": len(decoded), "expected": len(expected), "first_differences": [list(c) for c in bad]})
            return
        out["cases"].append({"case": label, "stored_entries": len(decoded), "seconds": round(time.time() - t0, 1)})

    dim = 2 * n + 10
    b, eb = vec(0, 2, n, dim)  # even coordinates
    c, ec = vec(1, 2 * (n // 5000) | 1 if False else 2 * (n // 5000), 5000, dim)  # odd coordinates spread over the WHOLE range:
    # the co-iteration loop `while (pb < end_b && pc < end_c)` then runs about a million times in one call
    # copy: pos/crd/vals of one compressed level all grow past 2^20
    check("a(i) = b(i), s -> s", evaluate("a(i) = b(i)", "s", b=b), (dim,), ("s",), eb)
    # union: the merged result is longer than either operand
    want = dict(eb)
    want.update(ec)
    check("a(i) = b(i) + c(i), s,s -> s", evaluate("a(i) = b(i) + c(i)", "s", b=b, c=c), (dim,), ("s",), want)
    # intersection of two long operands (every coordinate of b2 is in b): a million merged iterations, result of n/2 entries
    b2, eb2 = vec(0, 4, n // 2, dim)
    check("a(i) = b(i) * b2(i), s,s -> s", evaluate("a(i) = b(i) * b2(i)", "s", b=b, b2=b2), (dim,), ("s",),
          {k: eb[k] * v for k, v in eb2.items()})
    # two levels: the second level's crd/vals grow, the first level's do not
    rows = 1030
    per = n // rows + 1
    pos = [0]
    crd1 = []
    vals = []
    exp = {}
    for r in range(rows):
        for k in range(per):
            crd1.append(2 * k)
            v = float(1 + ((r + k) % 5))
            vals.append(v)
            exp[(r, 2 * k)] = v
        pos.append(len(crd1))
    B = Tensor(taco_structure_to_cffi([[], [pos, crd1]], vals, mode_types=(0, 1), dimensions=(rows, 2 * per), mode_ordering=(0, 1)))
    check("A(i,j) = B(i,j), ds -> ss", evaluate("A(i,j) = B(i,j)", "ss", B=B), (rows, 2 * per), ("s", "s"), exp)
    # a dense block under a compressed level: vals grows by whole rows
    check("A(i,j) = B(i,j), ds -> sd", evaluate("A(i,j) = B(i,j)", "sd", B=B), (rows, 2 * per), ("s", "d"), exp)
    # nested loops with a LONG outer loop: 600 000 rows x 2 stored columns (anything the back end allocates
    # per outer iteration - stack slots included - is multiplied by the row count)
    rows2 = 600_000
    pos2 = [0]
    crd2 = []
    vals2 = []
    for r in range(rows2):
        crd2.extend((0, 2))
        vals2.extend((1.0, float(r % 3)))
        pos2.append(len(crd2))
    A = Tensor(taco_structure_to_cffi([[], [pos2, crd2]], vals2, mode_types=(0, 1), dimensions=(rows2, 4), mode_ordering=(0, 1)))
    x = Tensor.from_dok({(0,): 2.0, (2,): 0.5, (3,): 7.0}, dimensions=(4,), format="s")
    want = {(r,): 2.0 + 0.5 * (r % 3) for r in range(rows2)}
    check("y(i) = A(i,j) * x(j), ds,s -> d, 600k rows", evaluate("y(i) = A(i,j) * x(j)", "d", A=A, x=x), (rows2,), ("d",), want)
    json.dump(out, open(sys.argv[1], "w"))


main()
