"""Runtime-monitoring verification machinery for drhagen/tensora (see /verif/DESIGN.md)."""
