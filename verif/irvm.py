"""E1: sanitizing interpreter ("IR abstract machine") for tensora's IR.

Executes `tensora.ir.ast.FunctionDefinition` objects produced by the real generator on an explicit
heap and observes every load, store, allocation, integer operation, loop iteration and variable
scope.  It is a monitor, not a model: it interprets whatever IR the working tree generates.

A violation is raised as `IRViolation(kind, detail)`.  An IR node/type the machine does not know
raises `Unsupported`, which callers must treat as *inconclusive*, never as a violation.
"""

from __future__ import annotations

from tensora.ir import ast as A
from tensora.ir import types as T

INT_MIN = -(2**31)
INT_MAX = 2**31 - 1


class IRViolation(Exception):
    def __init__(self, kind: str, detail: str = ""):
        super().__init__(f"{kind}: {detail}")
        self.kind = kind
        self.detail = detail


class Unsupported(Exception):
    pass


class _Uninit:
    __slots__ = ()

    def __repr__(self):
        return "UNINIT"


UNINIT = _Uninit()


class Block:
    """One allocation.  etype in {'int','float','ptr'}; owner in {'input','struct','kernel'}."""

    __slots__ = ("cells", "etype", "owner", "writable", "alive", "label", "born")

    def __init__(self, cells, etype, owner, writable, label, born=0):
        self.cells = cells
        self.etype = etype
        self.owner = owner
        self.writable = writable
        self.alive = True
        self.label = label
        self.born = born

    def __repr__(self):
        return f"<Block {self.label} {self.etype}[{len(self.cells)}] {self.owner}{'' if self.alive else ' DEAD'}>"


class Ptr:
    __slots__ = ("block", "offset")

    def __init__(self, block, offset=0):
        self.block = block
        self.offset = offset

    def __eq__(self, other):
        return isinstance(other, Ptr) and self.block is other.block and self.offset == other.offset

    def __hash__(self):
        return hash((id(self.block), self.offset))

    def __repr__(self):
        return f"Ptr({self.block.label if self.block else None}+{self.offset})"


NULL = Ptr(None, 0)


class Struct:
    """Mirror of taco_tensor_t.  Fields hold Ptr values; `role` is 'input' or 'output'."""

    __slots__ = ("name", "role", "fields", "order")

    def __init__(self, name, role, order, dimensions, mode_ordering, mode_types, indices, vals):
        self.name = name
        self.role = role
        self.order = order
        self.fields = {
            "dimensions": dimensions,
            "mode_ordering": mode_ordering,
            "mode_types": mode_types,
            "indices": indices,
            "vals": vals,
        }


class StructPtr:
    __slots__ = ("struct",)

    def __init__(self, struct):
        self.struct = struct


class Heap:
    def __init__(self):
        self.blocks: list[Block] = []
        self.n_alloc = 0

    def new(self, cells, etype, owner, writable, label):
        b = Block(cells, etype, owner, writable, label)
        self.blocks.append(b)
        return b

    def make_tensor(self, name, role, dims, modes, ordering, indices=None, vals=None):
        """modes: sequence of 'd'/'s'; indices: per level None or (pos list, crd list); vals list.

        With indices=None an empty output structure is created the way allocate_taco_structure does:
        NULL pos/crd/vals pointers.
        """
        order = len(dims)
        own = "input" if role == "input" else "struct"
        d = self.new(list(dims), "int", "struct", False, f"{name}.dimensions")
        mo = self.new(list(ordering), "int", "struct", False, f"{name}.mode_ordering")
        mt = self.new([0 if m == "d" else 1 for m in modes], "int", "struct", False, f"{name}.mode_types")
        levels = []
        for lvl, m in enumerate(modes):
            if m == "d":
                lb = self.new([], "ptr", "struct", False, f"{name}.indices[{lvl}]")
            else:
                if indices is None:
                    cells = [NULL, NULL]
                else:
                    pos, crd = indices[lvl]
                    pb = self.new(list(pos), "int", own, False, f"{name}.indices[{lvl}][0]")
                    cb = self.new(list(crd), "int", own, False, f"{name}.indices[{lvl}][1]")
                    cells = [Ptr(pb, 0), Ptr(cb, 0)]
                # the two pointer slots of an output level are assigned by the kernel
                lb = self.new(cells, "ptr", "struct", role == "output", f"{name}.indices[{lvl}]")
            levels.append(Ptr(lb, 0))
        top = self.new(levels, "ptr", "struct", False, f"{name}.indices")
        if vals is None:
            v = NULL
        else:
            vb = self.new(list(vals), "float", own, False, f"{name}.vals")
            v = Ptr(vb, 0)
        return Struct(name, role, order, Ptr(d, 0), Ptr(mo, 0), Ptr(mt, 0), Ptr(top, 0), v)


def read_struct(struct: Struct):
    """Decode a struct from the heap: returns (dims, modes, ordering, indices, vals, lengths).

    indices: per level [] or [pos list, crd list] (cells may be UNINIT); lengths: same shape with the
    allocated lengths; vals: list (may contain UNINIT).  Dead blocks raise IRViolation.
    """
    f = struct.fields
    dims = list(f["dimensions"].block.cells)
    ordering = list(f["mode_ordering"].block.cells)
    mt = list(f["mode_types"].block.cells)
    modes = ["d" if x == 0 else "s" for x in mt]
    indices = []
    top = f["indices"].block.cells
    for lvl, m in enumerate(modes):
        if m == "d":
            indices.append([])
        else:
            lb = top[lvl].block
            arrs = []
            for j in (0, 1):
                p = lb.cells[j]
                if p.block is None:
                    arrs.append(None)
                    continue
                if not p.block.alive:
                    raise IRViolation("returned-dead-array", f"{struct.name}.indices[{lvl}][{j}] -> {p.block.label}")
                if p.offset != 0:
                    raise IRViolation("returned-interior-pointer", f"{struct.name}.indices[{lvl}][{j}]")
                arrs.append(list(p.block.cells))
            indices.append(arrs)
    v = f["vals"]
    if v.block is None:
        vals = None
    else:
        if not v.block.alive:
            raise IRViolation("returned-dead-array", f"{struct.name}.vals -> {v.block.label}")
        if v.offset != 0:
            raise IRViolation("returned-interior-pointer", f"{struct.name}.vals")
        vals = list(v.block.cells)
    return dims, modes, ordering, indices, vals


class _Return(Exception):
    def __init__(self, value):
        self.value = value


class Counters:
    def __init__(self):
        self.steps = 0
        self.loop_iters = 0
        self.loop_iters_by_node = {}
        self.loads = 0
        self.stores = 0
        self.mallocs = []  # (label, etype, n)
        self.reallocs = []  # (old label, old n, new label, new n)
        self.branches = {}  # id(node) -> [taken_true, taken_false]
        self.flag_resets = 0
        self.flag_sets = 0
        self.gate_true = 0
        self.gate_false = 0

    def as_dict(self):
        return {
            "steps": self.steps,
            "loop_iters": self.loop_iters,
            "loads": self.loads,
            "stores": self.stores,
            "mallocs": len(self.mallocs),
            "reallocs": len(self.reallocs),
            "realloc_grow": sum(1 for r in self.reallocs if r[3] > r[1]),
            "realloc_shrink": sum(1 for r in self.reallocs if r[3] < r[1]),
        }


_SIZEOF = {"int": 4, "float": 8, "ptr": 8}


def _etype(t):
    if isinstance(t, T.Integer):
        return "int"
    if isinstance(t, T.Float):
        return "float"
    if isinstance(t, T.Boolean):
        return "bool"
    if isinstance(t, T.Pointer):
        return "ptr"
    raise Unsupported(f"type {t!r}")


class Machine:
    """Runs one FunctionDefinition on a Heap with given struct arguments."""

    def __init__(self, heap: Heap, budget=2_000_000, record_access=False, written_prefix="written_"):
        self.heap = heap
        self.budget = budget
        self.c = Counters()
        self.record_access = record_access
        self.access = set()
        self.access_seq = []
        self.scopes = []
        self.flat = {}
        self.alloc_seq = 0
        self.events = []  # ('malloc'|'realloc'|'store', ...) for history checks (C04)
        self.written_prefix = written_prefix
        self._disp_e = {
            A.Variable: self._e_var,
            A.AttributeAccess: self._e_attr,
            A.ArrayIndex: self._e_index,
            A.IntegerLiteral: self._e_int,
            A.FloatLiteral: self._e_float,
            A.BooleanLiteral: self._e_bool,
            A.Add: self._e_add,
            A.Subtract: self._e_sub,
            A.Multiply: self._e_mul,
            A.Equal: self._e_cmp,
            A.NotEqual: self._e_cmp,
            A.GreaterThan: self._e_cmp,
            A.LessThan: self._e_cmp,
            A.GreaterThanOrEqual: self._e_cmp,
            A.LessThanOrEqual: self._e_cmp,
            A.And: self._e_and,
            A.Or: self._e_or,
            A.Max: self._e_minmax,
            A.Min: self._e_minmax,
            A.BooleanToInteger: self._e_b2i,
            A.ArrayAllocate: self._e_malloc,
            A.ArrayReallocate: self._e_realloc,
        }
        self._disp_s = {
            A.Declaration: self._s_decl,
            A.Assignment: self._s_assign,
            A.DeclarationAssignment: self._s_declassign,
            A.Block: self._s_block,
            A.Branch: self._s_branch,
            A.Loop: self._s_loop,
            A.Return: self._s_return,
        }

    # ------------------------------------------------------------------ driver
    def run(self, fn: A.FunctionDefinition, args: list[Struct]):
        if len(fn.parameters) != len(args):
            raise IRViolation("arity", f"{len(fn.parameters)} parameters, {len(args)} arguments")
        self.scopes = [{}]
        self.flat = {}
        for p, s in zip(fn.parameters, args):
            if not (isinstance(p.type, T.Pointer) and isinstance(p.type.target, T.Tensor)):
                raise Unsupported(f"parameter type {p.type!r}")
            self._declare(p.name.name, "ptr")
            self._set(p.name.name, StructPtr(s))
        try:
            self._stmt_noscope(fn.body)
        except _Return as r:
            v = r.value
            if type(v) is not int:
                raise IRViolation("type", f"return of non-int {v!r}")
            return v
        raise IRViolation("no-return", "kernel fell off the end")

    # ------------------------------------------------------------------ variables
    def _declare(self, name, ty):
        scope = self.scopes[-1]
        if name in scope:
            raise IRViolation("redeclaration", name)
        scope[name] = [ty, UNINIT]

    def _lookup(self, name):
        for scope in reversed(self.scopes):
            slot = scope.get(name)
            if slot is not None:
                return slot
        raise IRViolation("undeclared-variable", name)

    def _set(self, name, value):
        slot = self._lookup(name)
        slot[1] = self._coerce(slot[0], value, name)
        self.flat[name] = slot[1]

    def _coerce(self, ty, value, what):
        tv = type(value)
        if ty == "int":
            if tv is int:
                return value
        elif ty == "float":
            if tv is float:
                return value
            if tv is int:
                return float(value)
        elif ty == "bool":
            if tv is bool:
                return value
        elif ty == "ptr":
            if tv is Ptr or tv is StructPtr:
                return value
        raise IRViolation("type", f"store of {tv.__name__} {value!r} into {ty} {what}")

    def _e_var(self, e):
        slot = self._lookup(e.name)
        v = slot[1]
        if v is UNINIT:
            raise IRViolation("uninit-variable", e.name)
        fv = self.flat.get(e.name, UNINIT)
        if fv is not v and fv != v:
            # C reads the shadowed outer variable; the LLVM back end (one alloca per name) reads
            # the value left by the inner declaration.
            raise IRViolation("scope-divergence", f"{e.name}: C scope value {v!r}, hoisted value {fv!r}")
        return v

    # ------------------------------------------------------------------ memory
    def _deref(self, p, what, write):
        if type(p) is not Ptr:
            raise IRViolation("type", f"indexing non-pointer {p!r} ({what})")
        b = p.block
        if b is None:
            raise IRViolation("null-deref", what)
        if not b.alive:
            raise IRViolation("use-after-free", f"{what} -> {b.label}")
        if not (0 <= p.offset < len(b.cells)):
            raise IRViolation("oob-write" if write else "oob-read", f"{what} -> {b.label}[{p.offset}] len {len(b.cells)}")
        return b

    def _load(self, p, what):
        b = self._deref(p, what, False)
        v = b.cells[p.offset]
        if v is UNINIT:
            raise IRViolation("uninit-read", f"{what} -> {b.label}[{p.offset}]")
        self.c.loads += 1
        if self.record_access:
            self.access.add((b.label, p.offset, "r"))
        return v

    def _store(self, p, value, what):
        b = self._deref(p, what, True)
        if not b.writable:
            raise IRViolation("write-to-input" if b.owner == "input" else "write-to-struct", f"{what} -> {b.label}[{p.offset}]")
        if b.etype == "float":
            if type(value) is int:
                value = float(value)
            elif type(value) is not float:
                raise IRViolation("type", f"store of {value!r} into float array {b.label}")
        elif b.etype == "int":
            if type(value) is not int:
                raise IRViolation("type", f"store of {value!r} into int array {b.label}")
        elif b.etype == "ptr":
            if type(value) is not Ptr:
                raise IRViolation("type", f"store of {value!r} into pointer array {b.label}")
        b.cells[p.offset] = value
        self.c.stores += 1
        self.events.append(("store", b.label, p.offset))
        if self.record_access:
            self.access.add((b.label, p.offset, "w"))

    def _e_attr(self, e):
        t = self._eval(e.target)
        if type(t) is not StructPtr:
            raise IRViolation("type", f"attribute {e.attribute} of non-tensor {t!r}")
        if e.attribute not in ("dimensions", "indices", "vals"):
            raise Unsupported(f"attribute {e.attribute}")
        return t.struct.fields[e.attribute]

    def _index_ptr(self, e):
        base = self._eval(e.target)
        idx = self._eval(e.index)
        if type(idx) is not int:
            raise IRViolation("type", f"index {idx!r} is not an integer")
        if type(base) is not Ptr:
            raise IRViolation("type", f"indexing non-pointer {base!r}")
        return Ptr(base.block, base.offset + idx)

    def _e_index(self, e):
        return self._load(self._index_ptr(e), _show(e))

    # ------------------------------------------------------------------ literals / arithmetic
    def _e_int(self, e):
        v = e.value
        if type(v) is not int:
            raise IRViolation("type", f"IntegerLiteral({v!r})")
        if not (INT_MIN <= v <= INT_MAX):
            raise IRViolation("int32-overflow", f"literal {v}")
        return v

    def _e_float(self, e):
        v = e.value
        if type(v) is int:
            v = float(v)
        if type(v) is not float:
            raise IRViolation("type", f"FloatLiteral({v!r})")
        return v

    def _e_bool(self, e):
        if type(e.value) is not bool:
            raise IRViolation("type", f"BooleanLiteral({e.value!r})")
        return e.value

    def _arith(self, e, op):
        l = self._eval(e.left)
        r = self._eval(e.right)
        tl, tr = type(l), type(r)
        if tl is int and tr is int:
            v = l + r if op == "+" else (l - r if op == "-" else l * r)
            if not (INT_MIN <= v <= INT_MAX):
                raise IRViolation("int32-overflow", f"{l} {op} {r}")
            return v
        if (tl is float or tl is int) and (tr is float or tr is int):
            l = float(l)
            r = float(r)
            return l + r if op == "+" else (l - r if op == "-" else l * r)
        if op == "+" and tl is Ptr and tr is int:
            return Ptr(l.block, l.offset + r)
        raise IRViolation("type", f"{tl.__name__} {op} {tr.__name__}")

    def _e_add(self, e):
        return self._arith(e, "+")

    def _e_sub(self, e):
        return self._arith(e, "-")

    def _e_mul(self, e):
        return self._arith(e, "*")

    def _e_cmp(self, e):
        l = self._eval(e.left)
        r = self._eval(e.right)
        if type(l) is not int or type(r) is not int:
            if type(l) is bool and type(r) is bool and isinstance(e, (A.Equal, A.NotEqual)):
                return (l == r) if isinstance(e, A.Equal) else (l != r)
            raise IRViolation("type", f"comparison of {type(l).__name__} and {type(r).__name__}")
        t = type(e)
        if t is A.Equal:
            return l == r
        if t is A.NotEqual:
            return l != r
        if t is A.GreaterThan:
            return l > r
        if t is A.LessThan:
            return l < r
        if t is A.GreaterThanOrEqual:
            return l >= r
        return l <= r

    def _e_and(self, e):
        l = self._eval(e.left)
        if type(l) is not bool:
            raise IRViolation("type", f"&& on {type(l).__name__}")
        if not l:
            return False
        r = self._eval(e.right)
        if type(r) is not bool:
            raise IRViolation("type", f"&& on {type(r).__name__}")
        return r

    def _e_or(self, e):
        l = self._eval(e.left)
        if type(l) is not bool:
            raise IRViolation("type", f"|| on {type(l).__name__}")
        if l:
            return True
        r = self._eval(e.right)
        if type(r) is not bool:
            raise IRViolation("type", f"|| on {type(r).__name__}")
        return r

    def _e_minmax(self, e):
        l = self._eval(e.left)
        r = self._eval(e.right)
        if type(l) is not int or type(r) is not int:
            raise IRViolation("type", f"min/max of {type(l).__name__} and {type(r).__name__}")
        if type(e) is A.Max:
            return l if l > r else r
        return l if l < r else r

    def _e_b2i(self, e):
        v = self._eval(e.expression)
        if type(v) is not bool:
            raise IRViolation("type", f"BooleanToInteger of {type(v).__name__}")
        return 1 if v else 0

    # ------------------------------------------------------------------ allocation
    def _count(self, e, what):
        n = self._eval(e)
        if type(n) is not int:
            raise IRViolation("type", f"{what} count {n!r}")
        if n < 0:
            raise IRViolation("negative-alloc", f"{what}({n})")
        return n

    def _e_malloc(self, e):
        et = _etype(e.element_type)
        if et == "bool":
            raise Unsupported("bool array")
        n = self._count(e.n_elements, "malloc")
        if n * _SIZEOF[et] > INT_MAX:
            raise IRViolation("alloc-size-overflow", f"malloc({n} x {_SIZEOF[et]})")
        self.alloc_seq += 1
        b = self.heap.new([UNINIT] * n, et, "kernel", True, f"alloc{self.alloc_seq}")
        self.c.mallocs.append((b.label, et, n))
        self.events.append(("malloc", b.label, n))
        return Ptr(b, 0)

    def _e_realloc(self, e):
        et = _etype(e.element_type)
        old = self._eval(e.old)
        n = self._count(e.n_elements, "realloc")
        if n * _SIZEOF[et] > INT_MAX:
            raise IRViolation("alloc-size-overflow", f"realloc({n} x {_SIZEOF[et]})")
        if type(old) is not Ptr:
            raise IRViolation("type", f"realloc of {old!r}")
        self.alloc_seq += 1
        if old.block is None:
            b = self.heap.new([UNINIT] * n, et, "kernel", True, f"alloc{self.alloc_seq}")
            self.c.reallocs.append((None, 0, b.label, n))
            self.events.append(("realloc", None, b.label, n))
            return Ptr(b, 0)
        ob = old.block
        if not ob.alive:
            raise IRViolation("double-free", f"realloc of freed {ob.label}")
        if old.offset != 0:
            raise IRViolation("realloc-interior", f"{ob.label}+{old.offset}")
        if ob.owner != "kernel":
            raise IRViolation("realloc-foreign", ob.label)
        if ob.etype != et:
            raise IRViolation("type", f"realloc of {ob.etype} block as {et}")
        keep = min(n, len(ob.cells))
        cells = ob.cells[:keep] + [UNINIT] * (n - keep)
        ob.alive = False
        b = self.heap.new(cells, et, "kernel", True, f"alloc{self.alloc_seq}")
        self.c.reallocs.append((ob.label, len(ob.cells), b.label, n))
        self.events.append(("realloc", ob.label, b.label, n))
        return Ptr(b, 0)

    # ------------------------------------------------------------------ dispatch
    def _eval(self, e):
        f = self._disp_e.get(type(e))
        if f is None:
            raise Unsupported(f"expression {type(e).__name__}")
        return f(e)

    def _stmt(self, s):
        self.c.steps += 1
        if self.c.steps > self.budget:
            raise IRViolation("budget", f"more than {self.budget} steps")
        f = self._disp_s.get(type(s))
        if f is None:
            if isinstance(s, A.Expression):
                # an expression used as a statement: evaluated for effect
                self._eval(s)
                return
            raise Unsupported(f"statement {type(s).__name__}")
        f(s)

    def _stmt_noscope(self, s):
        # body of a function/loop/branch whose scope the caller has already pushed
        self._stmt(s)

    def _scoped(self, s):
        self.scopes.append({})
        try:
            self._stmt(s)
        finally:
            self.scopes.pop()

    # ------------------------------------------------------------------ statements
    def _s_decl(self, s):
        ty = _etype(s.type)
        self._declare(s.name.name, ty)
        # the hoisted LLVM alloca keeps whatever it held; C leaves the new variable indeterminate
        # (a read before assignment is reported as uninit-variable)

    def _s_declassign(self, s):
        ty = _etype(s.target.type)
        v = self._eval(s.value)
        self._declare(s.target.name.name, ty)
        self._set(s.target.name.name, v)
        name = s.target.name.name
        if name.startswith(self.written_prefix) and v is False:
            self.c.flag_resets += 1

    def _s_assign(self, s):
        t = s.target
        tt = type(t)
        if tt is A.Variable:
            v = self._eval(s.value)
            self._set(t.name, v)
            if v is True and t.name.startswith(self.written_prefix):
                self.c.flag_sets += 1
        elif tt is A.ArrayIndex:
            v = self._eval(s.value)
            p = self._index_ptr(t)
            self._store(p, v, _show(t))
        elif tt is A.AttributeAccess:
            v = self._eval(s.value)
            st = self._eval(t.target)
            if type(st) is not StructPtr:
                raise IRViolation("type", f"attribute store on {st!r}")
            if t.attribute != "vals" or st.struct.role != "output":
                raise IRViolation("write-to-input" if st.struct.role == "input" else "write-to-struct", f"{st.struct.name}->{t.attribute}")
            if type(v) is not Ptr:
                raise IRViolation("type", f"{st.struct.name}->vals = {v!r}")
            st.struct.fields["vals"] = v
            self.events.append(("setfield", st.struct.name, "vals"))
        else:
            raise Unsupported(f"assignment target {tt.__name__}")

    def _s_block(self, s):
        for x in s.statements:
            self._stmt(x)

    def _s_branch(self, s):
        cnd = self._eval(s.condition)
        if type(cnd) is not bool:
            raise IRViolation("type", f"branch on {type(cnd).__name__}")
        cond = s.condition
        if type(cond) is A.Variable and cond.name.startswith(self.written_prefix):
            if cnd:
                self.c.gate_true += 1
            else:
                self.c.gate_false += 1
        self._scoped(s.if_true if cnd else s.if_false)

    def _s_loop(self, s):
        key = id(s)
        byn = self.c.loop_iters_by_node
        while True:
            cnd = self._eval(s.condition)
            if type(cnd) is not bool:
                raise IRViolation("type", f"loop on {type(cnd).__name__}")
            if not cnd:
                break
            self.c.loop_iters += 1
            byn[key] = byn.get(key, 0) + 1
            self._scoped(s.body)
            self.c.steps += 1
            if self.c.steps > self.budget:
                raise IRViolation("budget", f"more than {self.budget} steps")

    def _s_return(self, s):
        raise _Return(self._eval(s.value))


def _show(e, depth=0):
    """Short C-like rendering of an assignable, for witnesses."""
    if depth > 4:
        return "..."
    if isinstance(e, A.Variable):
        return e.name
    if isinstance(e, A.AttributeAccess):
        return f"{_show(e.target, depth + 1)}->{e.attribute}"
    if isinstance(e, A.ArrayIndex):
        return f"{_show(e.target, depth + 1)}[{_show(e.index, depth + 1)}]"
    if isinstance(e, A.IntegerLiteral):
        return str(e.value)
    if isinstance(e, (A.Add, A.Subtract, A.Multiply)):
        op = {A.Add: "+", A.Subtract: "-", A.Multiply: "*"}[type(e)]
        return f"({_show(e.left, depth + 1)}{op}{_show(e.right, depth + 1)})"
    return type(e).__name__


def snapshot_inputs(structs):
    """Deep snapshot of every block reachable from input structs (for the inputs-untouched check)."""
    snap = []
    for s in structs:
        for fname in ("dimensions", "mode_ordering", "mode_types", "indices", "vals"):
            p = s.fields[fname]
            _snap_ptr(p, snap, f"{s.name}.{fname}")
    return snap


def _snap_ptr(p, snap, path):
    if type(p) is not Ptr or p.block is None:
        snap.append((path, None, None, None))
        return
    b = p.block
    if b.etype == "ptr":
        snap.append((path, b, p.offset, [id(c.block) if type(c) is Ptr else None for c in b.cells]))
        for i, c in enumerate(b.cells):
            _snap_ptr(c, snap, f"{path}[{i}]")
    else:
        snap.append((path, b, p.offset, list(b.cells)))


def check_snapshot(structs, snap):
    now = snapshot_inputs(structs)
    if len(now) != len(snap):
        raise IRViolation("input-modified", "structure of input changed")
    for (path, b, off, cells), (path2, b2, off2, cells2) in zip(snap, now):
        if b is not b2 or off != off2 or cells != cells2:
            raise IRViolation("input-modified", path)
        if b is not None and not b.alive:
            raise IRViolation("input-freed", path)
