"""Runs (part of) the repository's own test suite with the E9 contracts on and folds what the
contracts observed into a check's Run.  A contract that was never evaluated makes the leg
inconclusive for that property."""

from __future__ import annotations

import json
import os
import subprocess
import sys

from .common import ROOT, rm_tree, work_dir

QUICK_TESTS = ["tests/test_evaluate.py", "tests/test_operators.py", "tests/test_sum.py", "tests/test_tensor.py",
               "tests/test_addition_in_multiplication.py", "tests/test_numpy.py"]


def ensure_icontract():
    deps = os.path.join(ROOT, ".deps")
    env = dict(os.environ)
    env["PYTHONPATH"] = deps
    if subprocess.run([sys.executable, "-c", "import icontract"], env=env, capture_output=True).returncode == 0:
        return deps
    os.makedirs(deps, exist_ok=True)
    subprocess.run([sys.executable, "-m", "pip", "install", "--quiet", "--no-index", "--find-links", "/opt/veriftools/wheels", "--target", deps,
                    "icontract"], capture_output=True)
    if subprocess.run([sys.executable, "-c", "import icontract"], env=env, capture_output=True).returncode == 0:
        return deps
    return None


def run(run, pid, tier, min_evaluations=50):
    deps = ensure_icontract()
    if deps is None:
        run.inconclusive_because("icontract could not be installed from the offline wheelhouse: contract leg did not run")
        return
    wd = work_dir("contracts")
    log = os.path.join(wd, "contracts.jsonl")
    try:
        env = dict(os.environ)
        env["PYTHONPATH"] = ROOT + os.pathsep + deps + os.pathsep + env.get("PYTHONPATH", "")
        env["VERIF_CONTRACT_LOG"] = log
        env["PYTHONHASHSEED"] = "0"
        tests = QUICK_TESTS if tier == "quick" else ["tests", "tests_cffi"]
        cmd = [sys.executable, "-m", "pytest", "-q", "-p", "no:cacheprovider", "-p", "verif.pytest_contracts", "-n", "12", "--timeout=900", *tests]
        r = subprocess.run(cmd, cwd="/repo", env=env, capture_output=True, text=True, timeout=3600)
        tail = r.stdout.strip().splitlines()[-1] if r.stdout.strip() else ""
        run.extra["contract_leg_pytest_summary"] = tail
        if not os.path.exists(log):
            run.inconclusive_because(f"contract leg produced no log: {r.stdout[-200:]} {r.stderr[-200:]}")
            return
        n_eval = 0
        for line in open(log):
            rec = json.loads(line)
            if rec.get("contract") == "install":
                if rec.get("error"):
                    run.inconclusive_because("contract leg: " + rec["error"])
                continue
            if "monitor_error" in rec:
                run.count("contract_monitor_errors")
                continue
            relevant = False
            if rec["contract"] == "TensorMethod.__call__" and pid in ("C01", "C02", "C03", "C05") and not rec.get("skipped"):
                relevant = True
            if rec["contract"] == "Tensor.from_aos" and pid == "C09":
                relevant = True
            if not relevant:
                continue
            n_eval += 1
            for v in rec["violations"]:
                if v["property"] != pid:
                    continue
                run.violation(f"contract:{v['class']}", {"during": "repository test suite with contracts on", **rec, **v}, v.get("known_key"))
        run.count("contract_evaluations_during_repo_tests", n_eval)
        run.evaluated(n_eval)
        if n_eval < min_evaluations:
            run.inconclusive_because(f"the {pid} contract was evaluated only {n_eval} times during the repository's tests")
    finally:
        rm_tree(wd)
