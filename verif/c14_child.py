"""Child process of C14: concurrent evaluate()/tensor_method clients with yield injection.

Records one history event per call at the client boundary ({thread, op, call, return, digest}) from
one monotonic clock, and compares every concurrent result with the same call made alone."""

import gc
import hashlib
import json
import os
import random
import sys
import threading
import time

sys.path.insert(0, os.path.dirname(os.path.dirname(os.path.abspath(__file__))))


def main():
    from verif import linecov

    linecov.start_from_env()
    spec = json.load(open(sys.argv[1]))
    out_path = sys.argv[2]
    seed = spec["seed"]
    from verif import engine, gen, taco
    import tensora
    from tensora import evaluate, tensor_method
    from tensora.compile import BackendCompiler, evaluate_cffi
    from tensora.compile import _porcelain

    sys.setswitchinterval(1e-6)
    rng = random.Random(f"C14-child-{seed}")
    mon = sys.monitoring
    TOOL = 3
    signature = hashlib.sha256()
    sig_lock = threading.Lock()
    hook_points = [0]
    yields = [0]
    tl = threading.local()
    compile_dir = os.path.join(os.path.dirname(tensora.__file__), "compile")
    inject_p = spec.get("inject_p", 0.3)

    def on_line(code, line):
        if not code.co_filename.startswith(compile_dir):
            return mon.DISABLE
        r = getattr(tl, "rng", None)
        if r is None:
            r = tl.rng = random.Random(f"{seed}-{threading.get_ident() % 1000}-{time.monotonic_ns() % 7}")
        with sig_lock:
            hook_points[0] += 1
            if hook_points[0] % 16 == 0:
                signature.update(str(threading.get_ident() % 997).encode())
        if r.random() < inject_p:
            yields[0] += 1
            time.sleep(0)
        return None

    mon.use_tool_id(TOOL, "verif-yield")
    mon.register_callback(TOOL, mon.events.LINE, on_line)

    events = []
    ev_lock = threading.Lock()
    mismatches = []
    errors = []
    compiles = []  # (thread, start, end) of calls that had to build a kernel (cache miss)

    def digest(t):
        raw = taco.read_raw(t)
        taco.validate(*raw)
        return hashlib.sha256(repr(raw).encode()).hexdigest(), raw

    def shapes_pool():
        return ["a(i) = b(i) + c(i)", "A(i,j) = B(i,j) * C(i,j)", "a(i) = B(i,j) * c(j)", "A(i,k) = B(i,j) * C(j,k)",
                "a() = b(i) * c(i)", "A(i,j) = B(i,j) + C(j,i)", "a(i) = b(i) * s() + c(i)", "A(i,j) = b(i) * c(j)"]

    def fresh_case(tag, r, shape=None, sizes=None):
        target, tree = gen.parse(shape or r.choice(shapes_pool()))
        tn = [target[1]] + list(gen.tensors_of(tree))
        tmap = {n: f"{n}{tag}" for n in tn}

        def ren(x):
            if x[0] == "t":
                return ("t", tmap[x[1]], x[2])
            if x[0] == "n":
                return x
            return (x[0], ren(x[1]), ren(x[2]))

        target, tree = ren(target), ren(tree)
        for _ in range(30):
            case = engine.build_case(r, target, tree, None, capacity=None, origin="c14", sizes_pool=sizes or [1, 2, 3, 4])
            try:
                engine.generate_module(engine.make_problem(case), ("evaluate",))
                return case
            except engine.Refused:
                continue
        return None

    def refused_case(tag, r):
        shape, fm = r.choice([("A(i,j) = B(i,j) * C(j,i)", {"A": "ss", "B": "ss", "C": "ss"}),
                              ("A(i,j) = B(i,j) + C(j,i)", {"A": "ds", "B": "ds", "C": "ds"}),
                              ("a(i) = B(i,i)", {"a": "d", "B": "ds"})])
        target, tree = gen.parse(shape)
        tn = [target[1]] + list(gen.tensors_of(tree))
        tmap = {n: f"{n}{tag}" for n in tn}

        def ren(x):
            if x[0] == "t":
                return ("t", tmap[x[1]], x[2])
            if x[0] == "n":
                return x
            return (x[0], ren(x[1]), ren(x[2]))

        target, tree = ren(target), ren(tree)
        case = engine.build_case(r, target, tree, {tmap[n]: f for n, f in fm.items()}, capacity=None, origin="c14-refused", sizes_pool=[2, 3])
        case.direct_problem = False
        case.formats = {tmap[n]: fm[n] for n in tn}
        try:
            engine.generate_module(engine.make_problem(case), ("evaluate",))
        except engine.Refused:
            return case
        except Exception:  # noqa: BLE001
            return None
        return None

    def call(case, backend):
        ins = engine.jit_inputs(case)
        out_fmt = case.formats[case.target[1]]
        if backend == "cffi":
            return evaluate_cffi(case.assignment, out_fmt, **ins)
        return evaluate(case.assignment, out_fmt, **ins)

    def client(tid, ops, barrier, keep):
        barrier.wait()
        for op_id, case, backend, expect_miss in ops:
            t0 = time.monotonic_ns()
            try:
                res = call(case, backend)
                d, raw = digest(res)
                err = None
                # independent of every cache: the reference semantics of the assignment (dyadic inputs)
                problem = engine.make_problem(case)
                _, ref = engine.reference(case, problem)
                diff = engine.compare_values(taco.validate(*raw), ref)
                if diff is not None:
                    err = f"result differs from the reference semantics at {diff[0]}: got {diff[1]}, want {diff[2]}"
            except Exception as exc:  # noqa: BLE001
                d, raw, err = None, None, f"{type(exc).__name__}: {exc}"[:200]
                res = None
            t1 = time.monotonic_ns()
            with ev_lock:
                events.append({"thread": tid, "op": op_id, "call": t0, "return": t1, "digest": d, "error": err, "backend": backend, "miss": expect_miss})
            keep.append(res)
            if len(keep) > 6:
                # concurrent deletion + collection of earlier results
                del keep[: 3]
                if tid % 2 == 0:
                    gc.collect()

    n_threads = spec["threads"]
    rounds = spec["rounds"]
    cffi_budget = spec.get("cffi", 0)
    op_counter = 0
    expected = {}  # op id -> (case, backend, digest-before or None)
    all_ops = {}
    for rnd in range(rounds):
        r = random.Random(f"{seed}-{rnd}")
        # (a) one cached method, different inputs and dimensions per call
        shape = r.choice(shapes_pool())
        base = fresh_case(f"R{seed}x{rnd}", r, shape)
        if base is None:
            continue
        call(base, "llvm")  # warm the cache
        # (b) one never-seen problem requested by all threads at once
        shared_new = fresh_case(f"S{seed}x{rnd}", r)
        # (b') one never-seen problem that has NO kernel, requested by all threads at once: every caller must get
        # the refusal the call gets when made alone (failures are not cached, so every round is a first request)
        shared_refused = refused_case(f"N{seed}x{rnd}", r)
        per_thread = []
        for tid in range(n_threads):
            ops = []
            for k in range(spec["calls_per_thread"]):
                kind = r.random()
                if kind < 0.45:
                    c = engine.build_case(r, base.target, base.tree, dict(base.formats), capacity=None, origin="cached", sizes_pool=[1, 2, 3, 4, 5])
                    c.formats = base.formats
                    miss = False
                elif kind < 0.5 and shared_refused is not None and k < 2:
                    c = shared_refused
                    miss = True
                elif kind < 0.6 and shared_new is not None:
                    c = engine.build_case(r, shared_new.target, shared_new.tree, dict(shared_new.formats), capacity=None, origin="shared-miss", sizes_pool=[2, 3])
                    c.formats = shared_new.formats
                    miss = True
                else:
                    c = fresh_case(f"D{seed}x{rnd}x{tid}x{k}", r)
                    miss = True
                    if c is None:
                        continue
                backend = "llvm"
                if cffi_budget > 0 and r.random() < 0.15:
                    backend = "cffi"
                    cffi_budget -= 1
                op_counter += 1
                ops.append((op_counter, c, backend, miss))
                all_ops[op_counter] = (c, backend)
            per_thread.append(ops)
        # sequential results for half of the cached-kernel calls BEFORE the threads start
        for ops in per_thread:
            for op_id, c, backend, miss in ops:
                if not miss and op_id % 2 == 0:
                    expected[op_id] = digest(call(c, backend))[0]
        if spec.get("cffi_burst") and rnd < spec["cffi_burst"]:
            # all threads compile a DISTINCT never-seen problem through the cffi back end at once
            burst = []
            for tid in range(n_threads):
                c = fresh_case(f"B{seed}x{rnd}x{tid}", r, "a(i) = b(i) * c(i) + b(i)" if tid % 2 else "a(i) = b(i) + c(i)")
                if c is not None:
                    op_counter += 1
                    all_ops[op_counter] = (c, "cffi")
                    burst.append([(op_counter, c, "cffi", True)])
            bb = threading.Barrier(len(burst))
            ths = [threading.Thread(target=client, args=(tid, burst[tid], bb, [])) for tid in range(len(burst))]
            for t in ths:
                t.start()
            for t in ths:
                t.join()
        mon.set_events(TOOL, mon.events.LINE)
        barrier = threading.Barrier(n_threads)
        threads = [threading.Thread(target=client, args=(tid, per_thread[tid], barrier, [])) for tid in range(n_threads)]
        for t in threads:
            t.start()
        for t in threads:
            t.join()
        mon.set_events(TOOL, 0)
        gc.collect()
    # sequential results for everything else AFTER the threads are done (alone, same process)
    seq_errors = 0
    same_refusals = [0]
    for ev in events:
        op = ev["op"]
        c, backend = all_ops[op]
        if op not in expected:
            try:
                expected[op] = digest(call(c, backend))[0]
            except Exception as exc:  # noqa: BLE001
                expected[op] = f"ERR:{type(exc).__name__}"
                seq_errors += 1
        want = expected[op]
        if ev["error"] is not None:
            if not str(want).startswith("ERR:"):
                errors.append({"event": ev, "case": c.describe(), "sequential": "ok"})
            elif ev["error"].split(":", 1)[0] != str(want)[4:]:
                # the call fails alone too, but with another exception: "behaves like the same call made alone"
                errors.append({"event": ev, "case": c.describe(), "sequential": want})
            else:
                same_refusals[0] += 1
        elif str(want).startswith("ERR:"):
            errors.append({"event": ev, "case": c.describe(), "sequential": want, "concurrent": "returned a result"})
        elif ev["digest"] != want:
            mismatches.append({"event": ev, "case": c.describe(), "sequential_digest": want})
    # overlap statistics from the history
    evs = sorted(events, key=lambda e: e["call"])
    overlap_pairs = 0
    miss_overlap = 0
    max_deg = 0
    active = []
    for e in evs:
        active = [a for a in active if a["return"] > e["call"]]
        overlap_pairs += len(active)
        miss_overlap += sum(1 for a in active if a["miss"] and e["miss"])
        active.append(e)
        max_deg = max(max_deg, len(active))
    json.dump({"calls": len(events), "mismatches": mismatches[:5], "n_mismatches": len(mismatches), "errors": errors[:5], "n_errors": len(errors),
               "overlapping_call_pairs": overlap_pairs, "overlapping_cache_miss_pairs": miss_overlap, "max_overlap_degree": max_deg,
               "hook_points": hook_points[0], "yields_injected": yields[0], "interleaving_signature": signature.hexdigest(),
               "cffi_calls": sum(1 for e in events if e["backend"] == "cffi"), "sequential_errors": seq_errors, "refusals_equal_to_sequential": same_refusals[0],
               "sample_history": events[:4]}, open(out_path, "w"))


main()
