"""E2: reference semantics written from the property text (C01, C03, C11) and the
placement semantics of the desugared tree (used only to classify the known K1b finding).

Input is the *surface* AST from tensora.expression.parse_assignment.  The right-hand side is
expanded by distributivity into signed products coef * T1(idx..) * T2(idx..) ...; each product is
summed over its own indexes absent from the target and broadcast along target indexes it lacks.
Arithmetic is exact (fractions.Fraction).
"""

from __future__ import annotations

import itertools
from fractions import Fraction

from tensora.expression import ast as S


def expand(e):
    """-> list of (coef: Fraction, factors: tuple[(name, indexes), ...])"""
    if isinstance(e, S.Integer):
        return [(Fraction(e.value), ())]
    if isinstance(e, S.Float):
        return [(Fraction(e.value), ())]
    if isinstance(e, S.Tensor):
        return [(Fraction(1), ((e.name, tuple(e.indexes)),))]
    if isinstance(e, S.Add):
        return expand(e.left) + expand(e.right)
    if isinstance(e, S.Subtract):
        return expand(e.left) + [(-c, f) for c, f in expand(e.right)]
    if isinstance(e, S.Multiply):
        out = []
        for c1, f1 in expand(e.left):
            for c2, f2 in expand(e.right):
                out.append((c1 * c2, f1 + f2))
        return out
    raise TypeError(f"unknown surface node {type(e).__name__}")


def term_indexes(factors):
    seen = []
    for _, idxs in factors:
        for i in idxs:
            if i not in seen:
                seen.append(i)
    return seen


def _join(factors, inputs):
    """All index assignments (dict index -> int) under which every factor has a stored entry,
    with the product of the stored values.  `inputs[name]` maps coordinate -> value."""
    partial = [({}, Fraction(1))]
    for name, idxs in factors:
        entries = inputs[name]
        nxt = []
        for env, val in partial:
            for coord, v in entries.items():
                ok = True
                env2 = None
                for i, c in zip(idxs, coord):
                    cur = env.get(i) if env2 is None else env2.get(i)
                    if cur is None:
                        if env2 is None:
                            env2 = dict(env)
                        env2[i] = c
                    elif cur != c:
                        ok = False
                        break
                if ok:
                    nxt.append((env2 if env2 is not None else env, val * Fraction(v)))
        partial = nxt
        if not partial:
            break
    return partial


def evaluate(assignment: S.Assignment, inputs: dict, index_sizes: dict):
    """-> (dimensions tuple, {coord: Fraction} for EVERY coordinate of the output space)."""
    target = tuple(assignment.target.indexes)
    dims = tuple(index_sizes[i] for i in target)
    out = {c: Fraction(0) for c in itertools.product(*(range(d) for d in dims))}
    if not out:
        return dims, out
    for coef, factors in expand(assignment.expression):
        own = term_indexes(factors)
        missing = [k for k, i in enumerate(target) if i not in own]
        for env, val in _join(factors, inputs):
            v = coef * val
            if v == 0:
                continue
            if not missing:
                out[tuple(env[i] for i in target)] += v
            else:
                ranges = [range(dims[k]) if i not in env else (env[i],) for k, i in enumerate(target)]
                for c in itertools.product(*ranges):
                    out[c] += v
    return dims, out


def support(assignment: S.Assignment, stored_sets: dict, index_sizes: dict):
    """Structural support: set of output coordinates (dimension order) under which some stored
    input entries combine.  `stored_sets[name]` is the set (or dict) of coordinates the input
    stores in its own format (a dense level stores every coordinate)."""
    target = tuple(assignment.target.indexes)
    dims = tuple(index_sizes[i] for i in target)
    sup = set()
    for _coef, factors in expand(assignment.expression):
        own = term_indexes(factors)
        missing = [k for k, i in enumerate(target) if i not in own]
        ones = {name: dict.fromkeys(stored_sets[name], 1) for name, _ in factors}
        for env, _ in _join(factors, ones):
            if not missing:
                sup.add(tuple(env[i] for i in target))
            else:
                ranges = [range(dims[k]) if i not in env else (env[i],) for k, i in enumerate(target)]
                sup.update(itertools.product(*ranges))
    return sup


# ------------------------------------------------------------------ placement semantics (K1b)


def placement_evaluate(desugared, inputs: dict, index_sizes: dict):
    """Evaluate the tree the real desugar_assignment returned: Contract(k, e) = sum_k e."""
    from tensora.desugar import ast as D

    def val(e, env):
        if isinstance(e, (D.Integer, D.Float)):
            return Fraction(e.value)
        if isinstance(e, D.Tensor):
            coord = tuple(env[i] for i in e.indexes)
            return Fraction(inputs[e.name].get(coord, 0))
        if isinstance(e, D.Add):
            return val(e.left, env) + val(e.right, env)
        if isinstance(e, D.Multiply):
            l = val(e.left, env)
            if l == 0:
                return l
            return l * val(e.right, env)
        if isinstance(e, D.Contract):
            tot = Fraction(0)
            for k in range(index_sizes[e.index]):
                env2 = dict(env)
                env2[e.index] = k
                tot += val(e.expression, env2)
            return tot
        raise TypeError(type(e).__name__)

    target = tuple(desugared.target.indexes)
    dims = tuple(index_sizes[i] for i in target)
    out = {}
    for c in itertools.product(*(range(d) for d in dims)):
        out[c] = val(desugared.expression, dict(zip(target, c)))
    return dims, out


def contraction_wraps_term_lacking_index(desugared) -> bool:
    """Syntactic predicate of the K1b mechanism: some Contract(k, body) whose body has an additive
    term (after expansion) that lacks k."""
    from tensora.desugar import ast as D

    def lacks(e, k):
        if isinstance(e, D.Tensor):
            return k not in e.indexes
        if isinstance(e, (D.Integer, D.Float)):
            return True
        if isinstance(e, D.Add):
            return lacks(e.left, k) or lacks(e.right, k)
        if isinstance(e, D.Multiply):
            return lacks(e.left, k) and lacks(e.right, k)
        if isinstance(e, D.Contract):
            return lacks(e.expression, k)
        raise TypeError(type(e).__name__)

    def walk(e):
        if isinstance(e, D.Contract):
            return lacks(e.expression, e.index) or walk(e.expression)
        if isinstance(e, (D.Add, D.Multiply)):
            return walk(e.left) or walk(e.right)
        return False

    return walk(desugared.expression)
