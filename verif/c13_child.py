"""Child process of C13, run under LD_PRELOAD=libverif_interpose.so.

Drives histories over {eval_sparse, eval_dense, eval_scalar, alias, rawref, read, pickle, feed, del,
gc} keeping the reference model (name -> tensor id) and writes one JSON line per step with the
logical mark that the interposer also writes into the allocation log."""

import ctypes
import gc
import itertools
import json
import os
import pickle
import random
import sys

sys.path.insert(0, os.path.dirname(os.path.dirname(os.path.abspath(__file__))))

OPS = ["eval_sparse", "eval_dense", "eval_scalar", "alias", "rawref", "read", "pickle", "feed", "del", "gc", "iter"]
NAMES = ["x", "y", "z"]


def main():
    from verif import linecov

    linecov.start_from_env()
    spec = json.load(open(sys.argv[1]))
    ops_path = sys.argv[2]
    lib = ctypes.CDLL(None)
    try:
        lib.verif_present()
    except AttributeError:
        print("interposer not loaded")
        sys.exit(3)
    lib.verif_call.restype = ctypes.c_int32
    lib.verif_mark.argtypes = [ctypes.c_long]

    from tensora import Tensor
    from tensora.compile import BackendCompiler, _porcelain, tensor_cdefs as ffi
    from tensora.compile._tensor_method import TensorMethod

    backend = BackendCompiler.cffi if spec.get("backend") == "cffi" else BackendCompiler.llvm
    instrumented = [0]
    kernel_calls = [0]

    from verif import kernelhook

    def wrap(fn, method):
        # the kernel runs inside the interposer's C trampoline: everything it allocates is tagged
        try:
            addr = int(ffi.cast("uintptr_t", fn))
        except TypeError:
            try:
                addr = int(ffi.cast("uintptr_t", ffi.addressof(method._lib, "evaluate")))
            except Exception:  # noqa: BLE001 - not instrumentable: counted, the parent turns zero into inconclusive
                return fn

        def kernel(*args):
            n = len(args)
            arr = (ctypes.c_void_p * n)(*[int(ffi.cast("uintptr_t", a)) for a in args])
            kernel_calls[0] += 1
            return lib.verif_call(ctypes.c_void_p(addr), n, arr)

        instrumented[0] += 1
        return kernel

    _porcelain.cachable_tensor_method.cache_clear()
    _porcelain.TensorMethod = kernelhook.hooked_class(wrap)
    ev = _porcelain.evaluate_cffi if backend == BackendCompiler.cffi else _porcelain.evaluate_tensora

    B = Tensor.from_dok({(0, 1): 1.0, (1, 0): 2.0, (2, 2): 3.0}, dimensions=(3, 3), format="ds")
    C = Tensor.from_dok({(0, 1): 4.0, (1, 1): 0.5, (2, 0): -1.0}, dimensions=(3, 3), format="ss")
    D = Tensor.from_dok({(0, 0): 2.0, (1, 2): 1.0}, dimensions=(3, 3), format="ss")  # disjoint from C
    V = Tensor.from_dok({(1,): 2.0}, dimensions=(3,), format="s")
    Z = Tensor.from_dok({}, dimensions=(3, 3), format="ss")
    # every eval op picks one variant: non-empty and EMPTY results, several output formats and orders
    SPARSE = [("a(i,j) = b(i,j) + c(i,j)", "ss", {"b": B, "c": C}), ("a(i,j) = c(i,j) * d(i,j)", "ss", {"c": C, "d": D}),
              ("a(i,j) = b(i,j) + c(i,j)", "ds", {"b": B, "c": C}), ("a(i,j) = c(i,j) * d(i,j)", "sd", {"c": C, "d": D}),
              ("a(i) = c(i,j) * v(j)", "s", {"c": C, "v": V}), ("a(i,j) = z(i,j)", "ds", {"z": Z}), ("a(i,j) = z(i,j) * c(i,j)", "ss", {"z": Z, "c": C}),
              ("a(i,j,k) = c(i,j) * v(k)", "sss", {"c": C, "v": V}), ("a(i,j) = c(i,j) - c(i,j)", "ss", {"c": C})]
    DENSE = [("a(i,j) = b(i,j) + c(i,j)", "dd", {"b": B, "c": C}), ("a(i) = b(i,j) * v(j)", "d", {"b": B, "v": V}), ("a(i,j) = z(i,j)", "dd", {"z": Z})]
    SCALAR = [("a() = b(i,j) * c(i,j)", "", {"b": B, "c": C}), ("a() = c(i,j) * d(i,j)", "", {"c": C, "d": D}), ("a() = v(i)", "", {"v": V})]
    usable = {}
    for group_name, group in (("eval_sparse", SPARSE), ("eval_dense", DENSE), ("eval_scalar", SCALAR)):
        ok = []
        for asg, fmt, kw in group:
            try:
                ev(asg, fmt, **kw)
                ok.append((asg, fmt, kw))
            except Exception:  # noqa: BLE001 - a refused variant is simply not used
                pass
        usable[group_name] = ok

    direct_cache = {}

    def direct_method(asg, fmt, kw):
        key = (asg, fmt)
        if key not in direct_cache:
            from tensora.expression import parse_assignment
            from tensora.format import parse_format
            from tensora.problem import Problem

            a = parse_assignment(asg).unwrap()
            formats = {n: t.format for n, t in kw.items()}
            formats[a.target.name] = parse_format(fmt).unwrap()
            direct_cache[key] = _porcelain.TensorMethod(Problem(a, formats), backend)
        return direct_cache[key]

    def pointers(t):
        """addresses of every kernel-allocatable array of the struct behind Tensor t"""
        c = t.cffi_tensor
        idx = ffi.cast("int32_t***", c.indices)
        out = []
        for l in range(c.order):
            if int(c.mode_types[l]) == 1:
                for j in (0, 1):
                    a = int(ffi.cast("uintptr_t", idx[l][j]))
                    if a:
                        out.append(a)
        a = int(ffi.cast("uintptr_t", c.vals))
        if a:
            out.append(a)
        return out

    mark = [0]
    out = open(ops_path, "w")

    def step(rec):
        rec["mark"] = mark[0]
        out.write(json.dumps(rec) + "\n")

    next_tid = [0]

    def run_history(hid, seq, rng):
        names = {}  # name -> ("tensor"|"raw", tid, object)
        rot = [0]
        created = []  # tids created by kernels in this history

        def live_refs():
            return sorted({v[1] for v in names.values() if v[1] is not None})

        def fresh_name():
            n = NAMES[rot[0] % len(NAMES)]
            rot[0] += 1
            return n

        def latest_tensor():
            cands = [n for n in NAMES if n in names and names[n][0] == "tensor"]
            return rng.choice(cands) if cands else None

        out.write(json.dumps({"history": hid, "ops": seq, "begin_mark": mark[0] + 1}) + "\n")
        for op in list(seq) + ["__del_all__", "gc"]:
            mark[0] += 1
            lib.verif_mark(mark[0])
            rec = {"op": op}
            if op in ("eval_sparse", "eval_dense", "eval_scalar"):
                n = fresh_name()
                asg, fmt, kw = rng.choice(usable[op])
                rec["variant"] = [asg, fmt]
                if rng.random() < 0.2:
                    # a Problem constructed directly, inputs listed BEFORE the target: the kernel's
                    # parameter order is the order of the formats, not "target first"
                    rec["variant"].append("direct-problem-inputs-first")
                    t = direct_method(asg, fmt, kw)(**kw)
                else:
                    t = ev(asg, fmt, **kw)
                next_tid[0] += 1
                tid = next_tid[0]
                rec.update({"new_tid": tid, "pointers": pointers(t), "name": n})
                names[n] = ("tensor", tid, t)
                created.append(tid)
                del t
            elif op == "alias":
                m = latest_tensor()
                if m is not None:
                    n = fresh_name()
                    names[n] = names[m]
                    rec.update({"name": n, "source": m})
            elif op == "rawref":
                m = latest_tensor()
                if m is not None:
                    n = fresh_name()
                    names[n] = ("raw", names[m][1], names[m][2].cffi_tensor)
                    rec.update({"name": n, "source": m})
            elif op == "read":
                cands = [n for n in NAMES if n in names]
                if cands:
                    m = rng.choice(cands)
                    kind, tid, obj = names[m]
                    if kind == "tensor":
                        rec["read"] = [len(obj.to_dok()), len(obj.taco_vals)]
                    elif kind == "iter":
                        # continue a read that was begun earlier (the tensor may have lost every other name since)
                        got = []
                        for _ in range(3):
                            try:
                                got.append(list(next(obj)))
                            except StopIteration:
                                # a finished iterator has released the tensor: it is no longer a user
                                names[m] = ("spent", None, None)
                                break
                        rec["read"] = [repr(got)[:80]]
                    elif kind == "spent":
                        rec["read"] = ["spent iterator"]
                    else:
                        vp = ffi.cast("double*", obj.vals)
                        rec["read"] = [float(vp[0])]
                    del obj
            elif op == "iter":
                # a read in progress: an items() iterator that outlives the step (and possibly every name of
                # the tensor); it is a user of the tensor's arrays until it is dropped
                m = latest_tensor()
                if m is not None:
                    n = fresh_name()
                    it = names[m][2].items()
                    spent = False
                    if rng.random() < 0.5:
                        try:
                            next(it)
                        except StopIteration:
                            spent = True  # a finished iterator has released the tensor: not a user any more
                    names[n] = ("spent", None, None) if spent else ("iter", names[m][1], it)
                    rec.update({"name": n, "source": m})
                    del it
            elif op == "pickle":
                m = latest_tensor()
                if m is not None:
                    n = fresh_name()
                    names[n] = ("tensor", None, pickle.loads(pickle.dumps(names[m][2])))  # python-owned copy: no kernel blocks
                    rec.update({"name": n, "source": m})
            elif op == "feed":
                m = latest_tensor()
                if m is not None:
                    src = names[m][2]
                    n = fresh_name()
                    fmt = src.format.deparse()
                    idx = ",".join("ijkl"[: src.order])
                    t = ev(f"r({idx}) = t({idx})", fmt, t=src)
                    next_tid[0] += 1
                    tid = next_tid[0]
                    rec.update({"new_tid": tid, "pointers": pointers(t), "name": n, "source": m, "input_tid": names[m][1]})
                    names[n] = ("tensor", tid, t)
                    created.append(tid)
                    del t, src
            elif op == "del":
                cands = [n for n in NAMES if n in names]
                if cands:
                    n = rng.choice(cands)
                    del names[n]
                    rec["name"] = n
            elif op == "gc":
                gc.collect()
            elif op == "__del_all__":
                names.clear()
            rec["refs_after"] = live_refs()
            step(rec)
        mark[0] += 1
        lib.verif_mark(mark[0])
        out.write(json.dumps({"history_end": hid, "mark": mark[0], "created": created}) + "\n")

    rng = random.Random(spec["seed"])
    hid = 0
    if spec.get("exhaustive_len"):
        L = spec["exhaustive_len"]
        seqs = []
        for n in range(1, L + 1):
            seqs.extend(itertools.product(range(len(OPS)), repeat=n))
        seqs = seqs[spec["index"] :: spec["n_shards"]]
        for s in seqs:
            run_history(hid, [OPS[k] for k in s], rng)
            hid += 1
    for _ in range(spec.get("random", 0)):
        n = rng.randint(spec.get("min_len", 5), spec.get("max_len", 8))
        run_history(hid, [rng.choice(OPS) for _ in range(n)], rng)
        hid += 1
    # repeated evaluation must not accumulate live kernel blocks
    if spec.get("loop"):
        mark[0] += 1
        lib.verif_mark(mark[0])
        out.write(json.dumps({"loop_begin": spec["loop"], "mark": mark[0]}) + "\n")
        t = None
        for k in range(spec["loop"]):
            t = ev("a(i,j) = b(i,j) + c(i,j)", "ss", b=B, c=C)
        del t
        gc.collect()
        mark[0] += 1
        lib.verif_mark(mark[0])
        out.write(json.dumps({"loop_end": spec["loop"], "mark": mark[0]}) + "\n")
    out.write(json.dumps({"summary": True, "histories": hid, "instrumented_methods": instrumented[0], "kernel_calls": kernel_calls[0]}) + "\n")
    out.close()


main()
