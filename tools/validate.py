#!/usr/bin/env python3
"""Validate MANIFEST.json and every evidence file against the harness schemas (python3-vt has jsonschema)."""
import glob, json, sys
import jsonschema
ok = True
def check(path, schema):
    global ok
    try:
        jsonschema.validate(json.load(open(path)), json.load(open(schema)))
        print("ok  ", path)
    except Exception as e:
        ok = False
        print("FAIL", path, str(e)[:300])
check("/verif/MANIFEST.json", "/root/.vp/MANIFEST.schema.json")
for p in sorted(glob.glob("/verif/evidence/*.json")):
    check(p, "/root/.vp/EVIDENCE.schema.json")
sys.exit(0 if ok else 1)
