#!/usr/bin/env python3
"""Regenerate /verif/MANIFEST.json from the table below (single source of truth for the interface)."""
import json
import os

ROOT = os.path.dirname(os.path.dirname(os.path.abspath(__file__)))

CHECKS = {
    "C01": dict(
        level="exploration",
        technique="runtime monitoring: real kernels executed on a sanitizing IR interpreter and through the LLVM JIT; result oracle = independent reference semantics (exact Fractions)",
        text="Every generated evaluate kernel of ~14k (quick) / ~150k (thorough) seeded (assignment, formats, inputs, capacity) cases - curated shapes, random grammar with metamorphic variants, a seeded third (quick) / all (thorough) of the 1578 bounded-exhaustive small expression trees, merge-lattice stress, medium sizes, orders 4-5, 6-10 operand lists, directly built Problems, hollow input prefixes, request preludes - is run on the abstract machine and a sample through the LLVM JIT, and its raw output compared exactly with a reference semantics written from the property text; held on the executions observed, not a proof.",
        note="Trusts refsem (expansion into signed products), the independent taco codec, and that dyadic inputs make every association order exact. Refusals are not failures; memory faults are judged by C05.",
        design="3/C01",
    ),
    "C02": dict(
        level="exploration",
        technique="runtime monitoring: independent structure validator over raw output arrays (abstract-machine heap with exact lengths + init bits; cffi arrays of JIT results), follow-up uses as cross-check",
        text="Every output of evaluate / assemble+compute kernels with a compressed level (~35k kernel outputs per quick run: curated and random shapes, ALL 1578 small expression trees over compressed vectors with operands exhausted in different orders, every output format of simple shapes incl. order 4, wide operand lists) is decoded from its raw arrays and validated against the property's contract; JIT results are additionally pickled, converted, compared and fed to another kernel; operator results are validated too.",
        note="Trusts taco.validate (written from the property text). Over-long arrays are allowed; array lengths on real heaps are invisible (sanitizer legs of C05 see a too-short one).",
        design="3/C02",
    ),
    "C03": dict(
        level="exploration",
        technique="runtime monitoring: stored-prefix sets of each compressed output level vs structural support from an independent reference walk; branch counters show the written-flag gate was exercised",
        text="For ~15k sparse-output executions per quick run (evaluate and assemble kernels, a JIT sample) biased to empty operands/rows/contractions, with hollow input prefixes and a third of the small expression trees, no compressed level stores a prefix outside the structural support.",
        note="Support is computed by refsem over the inputs' stored sets in their own formats; the check is an upper bound (sparser outputs are fine).",
        design="3/C03",
    ),
    "C05": dict(
        level="exploration",
        technique="runtime monitoring / sanitizers: IR abstract machine (bounds, init bits, ownership, int32 range, scope, step budget) on all three kernel kinds x capacities; emitted C under gcc ASan+UBSan; LLVM JIT under valgrind memcheck",
        text="~20k kernel executions per quick run (evaluate, assemble, compute-after-assemble; capacities 1..16 and default; huge dimensions on compressed levels, orders 4-5, every output format, wide operand lists) are observed access by access on the abstract machine; a sample runs as emitted C under ASan+UBSan and MSan and as JIT code under valgrind; six kernels run through the JIT beyond the default 2^20 capacity with million-iteration loops (a crash of that child is the observation).",
        note="Abstract machine = our reading of the IR's C semantics (validated three-way against both back ends in C06). Termination is a step budget. Sizes near 2^31 elements are out of reach; dimension sizes up to 2^31-1 are exercised on compressed levels only.",
        design="3/C05",
    ),
    "C04": dict(
        level="exploration",
        technique="runtime monitoring of kernel histories on the IR abstract machine: allocation events, every store of compute, pointer/cell diffs of the structure, values vs a fresh evaluate; sampled under ASan as emitted C",
        text="~1.2k histories per quick run (assemble; compute; 3x re-valued compute) on both request styles, with request preludes and directly built Problems: assemble's structure equals evaluate's, compute performs no allocation, stores only into the value array, leaves every pos/crd cell and pointer unchanged, and its values equal a fresh evaluate; a sample runs as emitted C under ASan.",
        note="Exact value comparison relies on dyadic inputs and identical operation order in compute and evaluate.",
        design="3/C04",
    ),
    "C07": dict(
        level="translation_validation",
        technique="runtime differential monitoring: original vs peephole-optimised IR executed on the sanitizing interpreter (return value, array contents, access sets), kernels captured at the generator's peephole binding + random well-typed trees",
        text="~24k rewritten random trees x 4 environments (dyadic and non-dyadic; a quarter with literals next to the identity elements) and ~1.7k rewritten kernels per quick run are executed before and after optimisation; every documented rewrite shape is generated (counted); any fault, differing return value/array or new access in the optimised program is a violation.",
        note="Programs whose original is unsafe or exceeds the budget are discarded (counted). Equivalence is on sampled states, not all states.",
        design="3/C07",
    ),
    "C16": dict(
        level="exploration",
        technique="runtime monitoring: loop-iteration counters of the abstract machine compared between runs with a qualifying dimension scaled x1..x10^4; negative control on non-qualifying indexes",
        text="~2.2k (problem, formats, inputs, index) pairs per quick run meeting the syntactic precondition (curated, random, and the complete single-dense-level neighbourhood of the all-compressed assignment of 16 sum/contraction shapes, on inputs with empty slices) are executed at four scales; loop-iteration totals must be identical; non-qualifying pairs show growth (the counter measures).",
        note="Precondition decided from request text; work measured as loop-body executions of the IR, not machine instructions.",
        design="3/C16",
    ),
    "C09": dict(
        level="exploration",
        technique="runtime monitoring at the Tensor API boundary: independent canonical-structure validator and content oracle over raw arrays, items/to_dok, to_format, pickle; fault injection of out-of-range coordinates",
        text="~60k constructions per quick run: every format of order 0..3 x small dimension tuples x every coordinate subset (bounded-exhaustive), random larger cases with duplicates/shuffles, four entry points, iterators / Format objects / omitted dimensions and format, all pickle protocols, copy, to_format chains, coordinates beyond 16 bits, arrays beyond 65536 elements; read-back, canonical raw structure, re-reads after the caller edited earlier results (aliasing monitor), rejection of out-of-range coordinates.",
        note="Content oracle = summed non-zero entries; explicit-zero storage not prescribed. Known finding K10 (out-of-range under a dense level dropped) is classified by mechanism.",
        design="3/C09",
    ),
    "C11": dict(
        level="exploration",
        technique="runtime monitoring at the operator boundary: results decoded from raw arrays vs exact dense arithmetic; exception-type and result-format oracles",
        text="~7.6k operator calls per quick run over all operand format pairs of order 0..2, sampled order 3, scalars (int, float, bool, Fraction) on either side, chains (a op b) op c, @ for all supported order pairs, foreign operands, shape- and order-mismatch probes.",
        note="Exact arithmetic on dyadic operands; format rule checked only for natural-order operands.",
        design="3/C11",
    ),
    "C12": dict(
        level="exploration",
        technique="runtime monitoring of the parsers: totality on hostile strings, round-trip oracle, and a differential meaning oracle against Python's own expression parser at random rational points",
        text="~60k hostile strings, 24k generated sentences incl. flat chains of up to 257 terms (tree = left fold; round trip; meaning at 3 points against Python's parser), all 443 formats of order <= 4, ~3k rejection probes per quick run.",
        note="Known findings: interpreter limits (RecursionError / 4300-digit ValueError) and non-finite float literal round trip, classified by mechanism with size thresholds.",
        design="3/C12",
    ),
    "C08": dict(
        level="exploration",
        technique="runtime monitoring of the generator entry points (library, tensor_method, CLI via CliRunner and real subprocess): exception-type oracle, sys.monitoring call budget, gcc -pedantic-errors syntax check of every emitted C module, llvmlite parse+verify of every LLVM module",
        text="~9k requests per quick run (curated shapes x exhaustive/sampled formats x kind subsets x languages, random grammar, diagonal accesses, identifier spellings, literal classes incl. finite literals with non-finite combinations, every order-4 output format of permuted copies, up to 12 co-iterated sparse operands, ~250 CLI invocations): code or a documented refusal, never another exception, hang or traceback; all emitted C is syntax-checked by gcc -pedantic-errors, all LLVM verified.",
        note="Hang = 1e9 Python calls (200x the largest legitimate request seen). Known findings (identifier collisions with C/libc and with generated names, non-finite/huge literals, else-if chain deeper than the recursion limit for >= 9 co-iterated sparse operands) are classified by predicate + counterfactual replay.",
        design="3/C08",
    ),
    "C10": dict(
        level="fault_enumeration",
        technique="runtime fault injection at the call boundary with a counting wrapper on the compiled function pointer (kernel-entry event) and an exception-type oracle; shards in subprocesses so a crash is observed",
        text="~10k single-fault calls per quick run: every way of making exactly one argument inconsistent (missing/extra incl. one named like the target/positional/non-Tensor incl. str and duck-typed/order/mode/ordering/each participant's dimension +-1, zero-sized dimensions) through TensorMethod, tensor_method(str), evaluate and the cffi back end; each must raise a documented error before the kernel-entry counter advances.",
        note="Kernel entry observed through a TensorMethod subclass whose _evaluate is a wrapping property (robust to where the attribute is assigned); positive control per case: the consistent call advances it exactly once.",
        design="3/C10",
    ),
    "C15": dict(
        level="exploration",
        technique="runtime differential monitoring across processes: SHA-256 of generated text under different PYTHONHASHSEED and request orders, CLI vs library, warm vs cleared vs fresh-process evaluate results, kernel-sharing identity/behaviour probes",
        text="~450 requests x 2 generations x 9 processes (5 hash seeds x 3 request orders) per quick run compared run to run, incl. reversed/repeated kind lists and the other language; ~320 CLI stdout/-o comparisons; 150 warm/cleared/fresh-process evaluate comparisons each followed by the same assignment with formats exchanged and keyword order reversed; 8 near-identical request pairs.",
        note="No golden text is stored; only disagreement between runs is a violation.",
        design="3/C15",
    ),
    "C14": dict(
        level="exploration",
        technique="runtime monitoring of concurrent client histories (call/return events from one monotonic clock) under stress: 1us switch interval + sys.monitoring yield injection in tensora/compile; result oracle = the same call made alone; crash observed per subprocess",
        text="~3.7k calls per quick run from 2..16 threads mixing a cached kernel with varying inputs and dimensions, a never-seen problem requested by all threads at once (with and without a kernel: refusals must equal the sequential refusal), distinct never-seen problems, cffi back end bursts and concurrent del/gc; ~34k overlapping call pairs, 350k injected yields; every result compared with the call made alone and with the reference semantics.",
        note="Not all interleavings: no controlled scheduler for CPython+native code exists here (TSan/helgrind unusable on CPython/JIT); evidence reports the overlap achieved.",
        design="3/C14",
    ),
    "C06": dict(
        level="translation_validation",
        technique="runtime differential monitoring with sanitizers: one IR module executed by the sanitizing interpreter, by gcc-compiled emitted C under ASan+UBSan and by the JIT-compiled emitted LLVM; bit-for-bit output comparison; gcc -pedantic-errors and LLVM verifier on every module",
        text="~1.4k programs per quick run (kernel modules incl. assemble/compute histories on ulp-sensitive values and IEEE specials + random well-typed IR programs exercising precedence, promotion, min/max, bool->int, compound assignment, short-circuit guards, 17-digit literals) agree three ways bit for bit; emitted C is checked with -pedantic-errors under the published header, LLVM modules are verified.",
        note="Known finding K5 (C printer re-associates right-nested float + and *) classified by predicate + counterfactual (same module printed with parentheses preserved). Unsafe programs are discarded.",
        design="3/C06",
    ),
    "C13": dict(
        level="exploration",
        technique="runtime monitoring with an LD_PRELOAD malloc/realloc/free interposer (kernel blocks tagged inside a C trampoline around the compiled function pointer) + offline checker of the event log against a name->tensor->blocks ownership model",
        text="~17k histories per quick run (every op-kind sequence of length <= 4 over eval/alias/rawref/read/iter/pickle/feed/del/gc, random longer ones, directly built Problems, a cffi back end sample, a 2000-iteration evaluation loop): no block freed while referenced (a live items() iterator is a reference), none freed twice, all freed after the last reference and a gc step.",
        note="Bounded restatement of 'when the last reference disappears' (next gc step). Event order decides, not whether stale data is still readable.",
        design="3/C13",
    ),
}

PENDING = {
}

ALL = [f"C{n:02d}" for n in range(1, 17)]


def main():
    checks = []
    for pid in ALL:
        if pid not in CHECKS:
            continue
        c = CHECKS[pid]
        checks.append({
            "property_id": pid,
            "quick_cmd": f"/venv/bin/python -m verif {pid} --tier quick",
            "thorough_cmd": f"/venv/bin/python -m verif {pid} --tier thorough",
            "evidence_file": f"/verif/evidence/{pid}.json",
            "replay_cmd_template": f"/venv/bin/python -m verif {pid} --replay {{path}}",
            "engine": c.get("engine", "verif"),
            "level_claimed": {"category": c["level"], "text": c["text"], "design_ref": c["design"]},
            "level_note": c["note"],
            "technique": c["technique"],
        })
    na = []
    for pid in ALL:
        if pid not in CHECKS:
            na.append({"property_id": pid, "reason": PENDING.get(pid, "check not yet built in this session; not claimed until it runs silently on the unchanged tree")})
    manifest = {
        "version": 1,
        "setup_cmd": "/bin/sh tools/setup.sh",
        "hooks": {
            "guard": "TENSORA_VERIF_INITIAL_CAPACITY",
            "enable": "export TENSORA_VERIF_INITIAL_CAPACITY=<n> for subprocess paths (CLI, cffi back end, sanitizer drivers); in-process checks rebind tensora.iteration_graph.outputs._append.default_array_size, the attribute the hook rebinds. /repo is installed editable in /venv, so no rebuild step exists.",
            "baseline_off_cmd": "python3 /verif/tools/baseline_check.py -n 12",
            "source_commits": ["ea0f3fc"],
            "add_only": True,
        },
        "engines": [
            {"name": "irvm", "path": "verif/irvm.py", "serves_properties": ["C01", "C02", "C03", "C04", "C05", "C06", "C07", "C16"], "kind_free_text": "sanitizing interpreter for tensora IR (bounds, initialisation, ownership, int32 range, C scoping vs hoisted allocas, step budget, loop counters)"},
            {"name": "refsem", "path": "verif/refsem.py", "serves_properties": ["C01", "C03", "C11"], "kind_free_text": "reference semantics and structural support from the property text, exact arithmetic"},
            {"name": "taco", "path": "verif/taco.py", "serves_properties": ["C01", "C02", "C03", "C04", "C06", "C09", "C11", "C13", "C14", "C15"], "kind_free_text": "independent raw codec/validator for taco_tensor_t"},
            {"name": "cdrv", "path": "verif/cdrv.py", "serves_properties": ["C04", "C05", "C06", "C08"], "kind_free_text": "emitted C compiled with gcc ASan+UBSan / clang MSan and driven by a generated main"},
            {"name": "interpose", "path": "csrc/interpose.c", "serves_properties": ["C13"], "kind_free_text": "LD_PRELOAD malloc/realloc/free event log + offline ownership checker"},
        ],
        "checks": checks,
        "not_applicable": na,
        "notes": "All checks: cd /verif && /venv/bin/python -m verif <ID> --tier quick|thorough; VERIF_SEED honoured; exit 0 held / 1 violation / 2 inconclusive. Known findings: /verif/known_findings.txt.",
    }
    with open(os.path.join(ROOT, "MANIFEST.json"), "w") as f:
        json.dump(manifest, f, indent=1)
    print("wrote MANIFEST.json with", len(checks), "checks;", len(na), "not_applicable")


main()
