#!/usr/bin/env python3
"""Regenerate /verif/MANIFEST.json from the table below (single source of truth for the interface)."""
import json
import os

ROOT = os.path.dirname(os.path.dirname(os.path.abspath(__file__)))

CHECKS = {
    "C01": dict(
        level="exploration",
        technique="runtime monitoring: real kernels executed on a sanitizing IR interpreter and through the LLVM JIT; result oracle = independent reference semantics (exact Fractions)",
        text="Every generated evaluate kernel of ~7k (quick) / ~100k (thorough) seeded (assignment, formats, inputs, capacity) cases is run and its raw output compared exactly with a reference semantics written from the property text; held on the executions observed, not a proof.",
        note="Trusts refsem (expansion into signed products), the independent taco codec, and that dyadic inputs make every association order exact. Refusals are not failures; memory faults are judged by C05.",
        design="3/C01",
    ),
}

PENDING = {
}

ALL = [f"C{n:02d}" for n in range(1, 17)]


def main():
    checks = []
    for pid in ALL:
        if pid not in CHECKS:
            continue
        c = CHECKS[pid]
        checks.append({
            "property_id": pid,
            "quick_cmd": f"/venv/bin/python -m verif {pid} --tier quick",
            "thorough_cmd": f"/venv/bin/python -m verif {pid} --tier thorough",
            "evidence_file": f"/verif/evidence/{pid}.json",
            "replay_cmd_template": f"/venv/bin/python -m verif {pid} --replay {{path}}",
            "engine": c.get("engine", "verif"),
            "level_claimed": {"category": c["level"], "text": c["text"], "design_ref": c["design"]},
            "level_note": c["note"],
            "technique": c["technique"],
        })
    na = []
    for pid in ALL:
        if pid not in CHECKS:
            na.append({"property_id": pid, "reason": PENDING.get(pid, "check not yet built in this session; not claimed until it runs silently on the unchanged tree")})
    manifest = {
        "version": 1,
        "setup_cmd": "/bin/sh tools/setup.sh",
        "hooks": {
            "guard": "TENSORA_VERIF_INITIAL_CAPACITY",
            "enable": "export TENSORA_VERIF_INITIAL_CAPACITY=<n> for subprocess paths (CLI, cffi back end, sanitizer drivers); in-process checks rebind tensora.iteration_graph.outputs._append.default_array_size, the attribute the hook rebinds. /repo is installed editable in /venv, so no rebuild step exists.",
            "baseline_off_cmd": "python3 /verif/tools/baseline_check.py -n 12",
            "source_commits": ["ea0f3fc"],
            "add_only": True,
        },
        "engines": [
            {"name": "irvm", "path": "verif/irvm.py", "serves_properties": ["C01", "C02", "C03", "C04", "C05", "C06", "C07", "C16"], "kind_free_text": "sanitizing interpreter for tensora IR (bounds, initialisation, ownership, int32 range, C scoping vs hoisted allocas, step budget, loop counters)"},
            {"name": "refsem", "path": "verif/refsem.py", "serves_properties": ["C01", "C03", "C11"], "kind_free_text": "reference semantics and structural support from the property text, exact arithmetic"},
            {"name": "taco", "path": "verif/taco.py", "serves_properties": ["C01", "C02", "C03", "C04", "C06", "C09", "C11", "C13", "C14", "C15"], "kind_free_text": "independent raw codec/validator for taco_tensor_t"},
            {"name": "cdrv", "path": "verif/cdrv.py", "serves_properties": ["C04", "C05", "C06", "C08"], "kind_free_text": "emitted C compiled with gcc ASan+UBSan / clang MSan and driven by a generated main"},
            {"name": "interpose", "path": "csrc/interpose.c", "serves_properties": ["C13"], "kind_free_text": "LD_PRELOAD malloc/realloc/free event log + offline ownership checker"},
        ],
        "checks": checks,
        "not_applicable": na,
        "notes": "All checks: cd /verif && /venv/bin/python -m verif <ID> --tier quick|thorough; VERIF_SEED honoured; exit 0 held / 1 violation / 2 inconclusive. Known findings: /verif/known_findings.txt.",
    }
    with open(os.path.join(ROOT, "MANIFEST.json"), "w") as f:
        json.dump(manifest, f, indent=1)
    print("wrote MANIFEST.json with", len(checks), "checks;", len(na), "not_applicable")


main()
