#!/bin/sh
# usage: sweep_all.sh <tier> <seed> [ids...]   - runs the checks one after the other, prints one line per check.
# For `vp run` (snapshot of the committed /verif): runs setup first.
tier=${1:-quick}; seed=${2:-0}; shift 2 2>/dev/null
ids=${*:-C01 C02 C03 C04 C05 C06 C07 C08 C09 C10 C11 C12 C13 C14 C15 C16}
cd "$(dirname "$0")/.."
sh tools/setup.sh >/dev/null 2>&1
mkdir -p .work/sweep
for c in $ids; do
  t0=$(date +%s)
  VERIF_SEED=$seed /venv/bin/python -m verif $c --tier $tier > .work/sweep/${c}_${tier}_${seed}.log 2>&1
  rc=$?
  echo "$c tier=$tier seed=$seed exit=$rc wall=$(( $(date +%s) - t0 ))s $(grep -c '^VIOLATION' .work/sweep/${c}_${tier}_${seed}.log) violations; $(grep -E '^(VIOLATION|INCONCLUSIVE|KNOWN-FINDING)' .work/sweep/${c}_${tier}_${seed}.log | cut -c1-160 | tr '\n' ';')"
  if [ $rc -ne 0 ]; then grep -E "^  class=" .work/sweep/${c}_${tier}_${seed}.log | cut -c1-700; fi
done
