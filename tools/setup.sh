#!/bin/sh
# Run once in /verif after a fresh restore, offline.  Every check repeats the needed steps lazily.
set -e
cd "$(dirname "$0")/.."
mkdir -p .work .deps evidence replays
if ! PYTHONPATH=.deps /venv/bin/python -c "import icontract" 2>/dev/null; then
  /venv/bin/pip install --quiet --no-index --find-links /opt/veriftools/wheels --target .deps icontract deal >/dev/null 2>&1 || echo "setup: icontract/deal not installed (contract replay will be inconclusive)"
fi
if [ -f csrc/interpose.c ]; then
  gcc -O1 -g -shared -fPIC -o .work/libverif_interpose.so csrc/interpose.c -ldl -lpthread
fi
/venv/bin/python -c "import tensora, verif.irvm" 
echo "setup ok"
