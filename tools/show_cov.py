#!/usr/bin/env python3
"""Print, per check, the anchored source lines its last run did not reach (from evidence/<id>.json)."""
import json
import os
import sys

ids = sys.argv[1:] or [f"C{n:02d}" for n in range(1, 17)]
root = "/repo/src/tensora"
for pid in ids:
    try:
        e = json.load(open(f"/verif/evidence/{pid}.json"))
    except OSError:
        continue
    a = e["coverage"].get("anchor_line_coverage")
    if not a or "files" not in a:
        print(pid, "no line coverage")
        continue
    print(f"== {pid}: {a['reached']}/{a['executable']} lines of anchored functions reached ({a.get('processes_reporting')} processes)")
    for f, v in a["files"].items():
        if not v["unreached_lines"]:
            continue
        print(f"  {f}: {v['reached']}/{v['executable']}")
        try:
            src = open(os.path.join(root, f)).read().split("\n")
        except OSError:
            src = []
        for ln in v["unreached_lines"]:
            print(f"      {ln:4d}: {src[ln - 1].strip()[:110] if ln <= len(src) else ''}")
