#!/usr/bin/env python3
"""Deliberate breaking (DESIGN sec. 7): apply one small source mutation to /repo, run the named
checks (quick tier), report whether they fire, and always restore /repo (git checkout).

usage: selfmut.py [name-substring ...]      (no argument = all)
"""
import subprocess
import sys
import time

R = "/repo/src/tensora/"
M = [
    # (name, checks, file, old, new)
    ("C01-wrong-dim-in-dense-position", ["C01"], "iteration_graph/_generate_ir.py",
     "pointer_value = previous_pointer.times(dimension_name(index_variable_i)).plus(\n                        index_variable_i\n                    )",
     "pointer_value = previous_pointer.times(dimension_name(self.index_variable)).plus(\n                        index_variable_i\n                    )"),
    ("C01-exhaust-add-drops-survivor", ["C01"], "iteration_graph/identifiable_expression/_exhaust_tensor.py",
     "    elif right_exhausted == Integer(0):\n        return left_exhausted\n    else:\n        return Add(left_exhausted, right_exhausted)",
     "    elif right_exhausted == Integer(0):\n        return right_exhausted\n    else:\n        return Add(left_exhausted, right_exhausted)"),
    ("C01-output-dims-from-last-participant", ["C01", "C11"], "compile/_tensor_method.py",
     "            reference_size = actual_sizes[0][2]\n            index_sizes[index] = reference_size",
     "            reference_size = actual_sizes[0][2]\n            index_sizes[index] = max(size for _, _, size in actual_sizes) if len(actual_sizes) > 2 else reference_size"),
    ("C02-drop-final-crd-realloc-and-pos0", ["C02", "C05"], "iteration_graph/outputs/_append.py",
     "                    source.append(pos_array.idx(0).assign(0))\n", "                    pass\n"),
    ("C02-pos-index-off", ["C02", "C01"], "iteration_graph/_write_sparse_ir.py",
     "    source.append(pos.idx(previous_pointer.plus(1)).assign(pointer))", "    source.append(pos.idx(previous_pointer).assign(pointer))"),
    ("C03-terminal-raises-flags-for-exhausted", ["C03"], "iteration_graph/_generate_ir.py",
     "    if self.expression != Integer(0):\n        for flag in output.written_flags():", "    if True:\n        for flag in output.written_flags():"),
    ("C03-sparse-loops-keep-empty-subnode", ["C03", "C16"], "iteration_graph/_generate_ir.py",
     "            if is_sparse and len(subsubnode.compressed_dimensions()) == 0:", "            if False and len(subsubnode.compressed_dimensions()) == 0:"),
    ("C04-bucket-init-only-in-evaluate", ["C04"], "iteration_graph/outputs/_append.py",
     "                    if kernel_type.is_compute()\n                    else SourceBuilder()", "                    if kernel_type == KernelType.evaluate\n                    else SourceBuilder()"),
    ("C05-capacity-test-gt", ["C05", "C02"], "iteration_graph/_write_sparse_ir.py",
     "    with source.branch(GreaterThanOrEqual(pointer, capacity)):\n        source.append(capacity.assign(capacity.times(2)))\n        source.append(crd.assign",
     "    with source.branch(GreaterThanOrEqual(pointer, capacity.plus(1))):\n        source.append(capacity.assign(capacity.times(2)))\n        source.append(crd.assign"),
    ("C05-padded-size-without-plus-one", ["C05", "C04"], "iteration_graph/outputs/_append.py",
     "                    padded_size = final_size.plus(1)", "                    padded_size = final_size"),
    ("C06-c-drop-parens-of-subtract-right", ["C06"], "codegen/_ir_to_c.py",
     'return f"{ir_to_c_expression(self.left)} - {parens(self.right, (Add, Subtract))}"', 'return f"{ir_to_c_expression(self.left)} - {parens(self.right, (Subtract,))}"'),
    ("C06-llvm-or-phi-swapped", ["C06"], "codegen/_ir_to_llvm.py",
     "    phi.add_incoming(llvm.Constant(llvm_boolean_type, 1), left_end_block)", "    phi.add_incoming(llvm.Constant(llvm_boolean_type, 0), left_end_block)"),
    ("C06-c-muleq-sugar-wrong-side", ["C06"], "codegen/_ir_to_c.py",
     "    elif isinstance(self.value, Multiply) and self.value.left == self.target:\n        return [f\"{target} *= {ir_to_c_expression(self.value.right)};\"]",
     "    elif isinstance(self.value, Subtract) and self.value.right == self.target:\n        return [f\"{target} -= {ir_to_c_expression(self.value.left)};\"]\n    elif isinstance(self.value, Multiply) and self.value.left == self.target:\n        return [f\"{target} *= {ir_to_c_expression(self.value.right)};\"]"),
    ("C07-zero-minus-x", ["C07"], "ir/_peephole.py",
     "    if right == IntegerLiteral(0) or right == FloatLiteral(0.0):\n        return left\n    else:\n        return Subtract(left, right)",
     "    if right == IntegerLiteral(0) or right == FloatLiteral(0.0):\n        return left\n    elif left == IntegerLiteral(0):\n        return right\n    else:\n        return Subtract(left, right)"),
    ("C07-branch-else-empty-returns-true-arm", ["C07"], "ir/_peephole.py",
     "    elif (\n        isinstance(if_true, Block)\n        and if_true.is_empty()\n        and isinstance(if_false, Block)\n        and if_false.is_empty()\n    ):\n        return Block([])",
     "    elif isinstance(if_false, Block) and if_false.is_empty() and isinstance(if_true, Block) and len(if_true.statements) == 1:\n        return if_true"),
    ("C07-less-than-same-true", ["C07"], "ir/_peephole.py",
     "@peephole_expression.register(NotEqual)\n@peephole_expression.register(GreaterThan)\n@peephole_expression.register(LessThan)",
     "@peephole_expression.register(LessThanOrEqual)\n@peephole_expression.register(NotEqual)\n@peephole_expression.register(GreaterThan)\n@peephole_expression.register(LessThan)"),
    ("C08-remove-pending-compressed-guard", ["C08"], "desugar/_to_iteration_graphs.py",
     "                    and not target_has_pending_compressed(target, output_layers)\n", ""),
    ("C09-compressed-level-not-sorted", ["C09"], "tensor.py", "            idx = sorted(node.keys())", "            idx = list(node.keys())"),
    ("C09-duplicates-overwrite", ["C09"], "tensor.py", "            node[key] = node.get(key, 0.0) + payload", "            node[key] = payload"),
    ("C10-compare-only-first-two-participants", ["C10"], "compile/_tensor_method.py",
     "            for _, _, size in actual_sizes[1:]:", "            for _, _, size in actual_sizes[1:2]:"),
    ("C10-skip-ordering-check", ["C10"], "compile/_tensor_method.py",
     "            if tuple(argument.mode_ordering) != tuple(format.ordering):", "            if False:"),
    ("C11-intersection-for-add", ["C11"], "tensor.py",
     '                "d" if mode1 == Mode.dense or mode2 == Mode.dense else "s"', '                "d" if mode1 == Mode.dense and mode2 == Mode.dense else "s"'),
    ("C12-subtract-deparse-no-parens", ["C12"], "expression/ast.py",
     "        right_string = self.right.deparse()\n        if isinstance(self.right, (Add, Subtract)):\n            right_string = f\"({right_string})\"\n\n        return left_string + \" - \" + right_string",
     "        right_string = self.right.deparse()\n        if isinstance(self.right, (Subtract,)):\n            right_string = f\"({right_string})\"\n\n        return left_string + \" - \" + right_string"),
    ("C13-skip-take-ownership-of-vals", ["C13"], "compile/_cffi_ownership.py",
     '    memory_holder["vals"] = tensor_cdefs.gc(cffi_tensor.vals, tensor_lib.free)', '    pass'),
    ("C13-own-arrays-from-wrapper", ["C13"], "compile/_tensor_method.py",
     "        take_ownership_of_arrays(cffi_output)\n", "        take_ownership_of_arrays(cffi_output)\n        from ._cffi_ownership import global_weakkeydict\n        output._holder = global_weakkeydict.pop(cffi_output)\n"),
    ("C14-output-struct-kept-on-self", ["C14"], "compile/_tensor_method.py",
     "        cffi_output = allocate_taco_structure(\n            tuple(mode.c_int for mode in self._output_format.modes),\n            output_dimensions,\n            self._output_format.ordering,\n        )\n\n        output = Tensor(cffi_output)\n\n        all_arguments = {self._output_name: output, **bound_arguments}",
     "        self._cffi_output = allocate_taco_structure(\n            tuple(mode.c_int for mode in self._output_format.modes),\n            output_dimensions,\n            self._output_format.ordering,\n        )\n        self._bound = bound_arguments\n        import time as _t\n        _t.sleep(0)\n        cffi_output = self._cffi_output\n        bound_arguments = self._bound\n\n        output = Tensor(cffi_output)\n\n        all_arguments = {self._output_name: output, **bound_arguments}"),
    ("C15-problem-hash-ignores-formats", ["C15"], "problem.py",
     "            return self.assignment == other.assignment and tuple(self.formats.items()) == tuple(\n                other.formats.items()\n            )\n        else:\n            return NotImplemented\n\n    def __hash__(self) -> int:\n        return hash((self.assignment, tuple(self.formats.items())))",
     "            return self.assignment == other.assignment and tuple(self.formats.keys()) == tuple(\n                other.formats.keys()\n            )\n        else:\n            return NotImplemented\n\n    def __hash__(self) -> int:\n        return hash((self.assignment, tuple(self.formats.keys())))"),
    ("C15-set-iteration-reaches-text", ["C15"], "desugar/_index_dimensions.py",
     "    indexes = target_dimensions.copy()\n    for index_i, dimension in right_dimensions.items():",
     "    indexes = target_dimensions.copy()\n    for index_i, dimension in {k: right_dimensions[k] for k in set(right_dimensions)}.items():"),
    ("C16-contraction-loops-dense", ["C16"], "iteration_graph/_generate_ir.py",
     "    is_sparse = self.is_sparse_input() and (self.output is None or self.is_sparse_output())", "    is_sparse = self.is_sparse_input() and self.is_sparse_output()"),
]


def run(cmd, **kw):
    return subprocess.run(cmd, shell=True, capture_output=True, text=True, **kw)


def main():
    want = sys.argv[1:]
    results = []
    for name, checks, file, old, new in M:
        if want and not any(w in name for w in want):
            continue
        path = R + file
        src = open(path).read()
        if src.count(old) != 1:
            print(f"{name}: PATTERN NOT FOUND ({src.count(old)} matches)")
            continue
        try:
            open(path, "w").write(src.replace(old, new))
            imp = run("/venv/bin/python -c 'import tensora'")
            if imp.returncode != 0:
                print(f"{name}: mutant does not import: {imp.stderr[-200:]}")
                continue
            for c in checks:
                t = time.time()
                r = run(f"cd /verif && /venv/bin/python -m verif {c} --tier quick", timeout=3000)
                viol = [l for l in r.stdout.splitlines() if l.startswith("VIOLATION")]
                cls = [l.strip()[:160] for l in r.stdout.splitlines() if l.strip().startswith("class=")]
                print(f"{name}: {c} exit={r.returncode} violations={len(viol)} {time.time() - t:.0f}s  {cls[:2]}")
                if r.returncode not in (0, 1, 2):
                    print("   stderr:", r.stderr[-300:])
                results.append((name, c, r.returncode))
        finally:
            open(path, "w").write(src)
    run("git -C /repo checkout -- .")
    missed = [(n, c) for n, c, rc in results if rc != 1]
    print("MISSED:", missed)


main()
