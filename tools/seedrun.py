#!/usr/bin/env python3
"""Confirm a seeded change and run checks against it.

usage: seedrun.py <worktree> <n> <seed-id> <property> "<needs>" <check> [<check> ...] [--skip-suite]

1. in the scratch worktree: demo<n>.py passes on the clean tree, fails with mutant<n>.diff applied,
   and the repository's stable baseline still passes with it applied;
2. applies the diff to /repo, runs the named checks (quick tier), and ALWAYS restores /repo;
3. stores /verif/seeded/<seed-id>/{patch.diff, demo.py, meta.json}.
"""
import json
import os
import shutil
import subprocess
import sys
import time
import xml.etree.ElementTree as ET


def sh(cmd, cwd=None, env=None, timeout=3600):
    return subprocess.run(cmd, shell=True, cwd=cwd, env=env, capture_output=True, text=True, timeout=timeout)


def suite(wt):
    base = json.load(open("/root/.vp/BASELINE.json"))
    stable = set(base["stable_pass"])
    env = dict(os.environ)
    env["PYTHONPATH"] = f"{wt}/src"
    for k in list(env):
        if k.startswith("TENSORA_VERIF"):
            del env[k]
    junit = f"/verif/.work/seed-junit-{os.getpid()}.xml"
    sh(f"/venv/bin/python -m pytest -q -p no:cacheprovider --timeout=240 -n 14 --junitxml={junit} "
       "--deselect fuzz_tests/test_cli.py::test_cli_cannot_crash --deselect fuzz_tests/test_generate.py::test_generate_cannot_crash",
       cwd=wt, env=env)
    passed = set()
    for tc in ET.parse(junit).getroot().iter("testcase"):
        if not any(ch.tag in ("failure", "error", "skipped") for ch in tc):
            passed.add(f"{tc.get('classname')}::{tc.get('name')}")
    os.unlink(junit)
    missing = sorted(stable - passed)
    if missing and all(m.startswith("fuzz_tests.test_parsing::") for m in missing):
        # hypothesis deadline flakes under machine load: re-run that file alone
        r = sh("/venv/bin/python -m pytest -q -p no:cacheprovider fuzz_tests/test_parsing.py", cwd=wt, env=env)
        if r.returncode == 0:
            missing = []
    return missing


def main():
    args = [a for a in sys.argv[1:] if not a.startswith("--")]
    skip_suite = "--skip-suite" in sys.argv
    wt, n, seed_id, prop, needs = args[:5]
    checks = args[5:]
    diff = f"{wt}/mutant{n}.diff"
    demo = f"{wt}/demo{n}.py"
    env = dict(os.environ)
    env["PYTHONPATH"] = f"{wt}/src"
    meta = {"property": prop, "needs": needs, "ran": {}, "checks": {}}
    sh("git checkout -- .", cwd=wt)
    if "--suite-only" in sys.argv:
        # second phase for a change whose demo/check runs were recorded with --skip-suite
        d = f"/verif/seeded/{seed_id}"
        meta = json.load(open(f"{d}/meta.json"))
        a = sh(f"git apply {diff}", cwd=wt)
        if a.returncode != 0:
            print("diff does not apply:", a.stderr)
            sys.exit(2)
        try:
            missing = suite(wt)
        finally:
            sh("git checkout -- .", cwd=wt)
        meta["ran"]["baseline_with_change"] = {"stable_tests_missing": len(missing), "examples": missing[:5]}
        meta["confirmed"] = (meta["ran"]["demo_on_clean_tree"]["exit"] == 0 and meta["ran"]["demo_with_change"]["exit"] != 0
                             and not missing)
        json.dump(meta, open(f"{d}/meta.json", "w"), indent=1)
        print(seed_id, "suite: missing", len(missing), missing[:5], "confirmed:", meta["confirmed"])
        return
    if "--checks-only" in sys.argv:
        # re-run checks against a change that is already stored (after a check was strengthened); the earlier
        # result is kept as checks_at_first
        d = f"/verif/seeded/{seed_id}"
        meta = json.load(open(f"{d}/meta.json"))
        a = sh(f"git apply {diff}", cwd=wt)
        if a.returncode != 0:
            print("diff does not apply:", a.stderr)
            sys.exit(2)
        cenv = dict(os.environ)
        cenv["PYTHONPATH"] = f"{wt}/src"
        new = {}
        try:
            for c in checks:
                t = time.time()
                r = sh(f"/venv/bin/python -m verif {c} --tier quick", cwd="/verif", env=cenv, timeout=7200)
                cls = [l.strip()[:200] for l in r.stdout.splitlines() if l.strip().startswith("class=")]
                new[c] = {"exit": r.returncode, "wall_s": round(time.time() - t), "classes": cls[:4]}
                print(f"  {c}: exit={r.returncode} {time.time() - t:.0f}s {cls[:1]}")
        finally:
            sh("git checkout -- .", cwd=wt)
        if "checks_at_first" not in meta:
            meta["checks_at_first"] = meta.get("checks", {})
        meta["checks"] = {**meta.get("checks", {}), **new}
        meta["caught_by"] = [c for c, v in meta["checks"].items() if v["exit"] == 1]
        if needs and needs != "x":
            meta["missed_at_first"] = needs
        json.dump(meta, open(f"{d}/meta.json", "w"), indent=1)
        print(seed_id, "caught_by:", meta["caught_by"])
        return
    r = sh(f"/venv/bin/python {demo}", cwd=wt, env=env, timeout=900)
    meta["ran"]["demo_on_clean_tree"] = {"exit": r.returncode, "tail": r.stdout[-200:]}
    a = sh(f"git apply {diff}", cwd=wt)
    if a.returncode != 0:
        print("diff does not apply:", a.stderr)
        sys.exit(2)
    try:
        r2 = sh(f"/venv/bin/python {demo}", cwd=wt, env=env, timeout=900)
        meta["ran"]["demo_with_change"] = {"exit": r2.returncode, "tail": r2.stdout[-300:]}
        if not skip_suite:
            missing = suite(wt)
            meta["ran"]["baseline_with_change"] = {"stable_tests_missing": len(missing), "examples": missing[:5]}
    finally:
        sh("git checkout -- .", cwd=wt)
    ok = meta["ran"]["demo_on_clean_tree"]["exit"] == 0 and meta["ran"]["demo_with_change"]["exit"] != 0 and (
        skip_suite or meta["ran"]["baseline_with_change"]["stable_tests_missing"] == 0)
    print("confirmed:", ok, json.dumps(meta["ran"])[:600])
    # run the checks with the change applied.  Default: apply to /repo and always restore it.
    # With --via-worktree the change stays in the scratch worktree and the checks import tensora from
    # there (PYTHONPATH precedes /venv's editable install), so /repo is never touched.
    via_wt = "--via-worktree" in sys.argv
    if via_wt:
        a = sh(f"git apply {diff}", cwd=wt)
        cenv = dict(os.environ)
        cenv["PYTHONPATH"] = f"{wt}/src"
    else:
        a = sh(f"git -C /repo apply {diff}")
        cenv = None
    if a.returncode != 0:
        print("diff does not apply:", a.stderr)
        sys.exit(2)
    try:
        for c in checks:
            t = time.time()
            r = sh(f"/venv/bin/python -m verif {c} --tier quick", cwd="/verif", env=cenv, timeout=3600)
            cls = [l.strip()[:200] for l in r.stdout.splitlines() if l.strip().startswith("class=")]
            meta["checks"][c] = {"exit": r.returncode, "wall_s": round(time.time() - t), "classes": cls[:4]}
            print(f"  {c}: exit={r.returncode} {time.time() - t:.0f}s {cls[:2]}")
            if r.returncode not in (0, 1, 2):
                print("   stderr:", r.stderr[-300:])
            if r.returncode == 2:
                print("   ", [l[:200] for l in r.stdout.splitlines() if l.startswith("INCONCLUSIVE")][:3])
    finally:
        if via_wt:
            sh("git checkout -- .", cwd=wt)
        else:
            sh("git -C /repo checkout -- .")
    meta["confirmed"] = ok
    meta["caught_by"] = [c for c, v in meta["checks"].items() if v["exit"] == 1]
    if ok:
        d = f"/verif/seeded/{seed_id}"
        os.makedirs(d, exist_ok=True)
        shutil.copy(diff, f"{d}/patch.diff")
        shutil.copy(demo, f"{d}/demo.py")
        json.dump(meta, open(f"{d}/meta.json", "w"), indent=1)
    print("caught_by:", meta["caught_by"])


main()
