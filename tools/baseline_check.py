#!/usr/bin/env python3
"""Run the repository's stable baseline (guard OFF) and compare with /root/.vp/BASELINE.json.

usage: baseline_check.py [-n WORKERS]
Exit 0 iff every test in BASELINE.stable_pass passed.  The two fuzz tests BASELINE lists as
flaky are deselected (they are hypothesis tests with wall-clock deadlines).
"""
import json, os, subprocess, sys, tempfile, xml.etree.ElementTree as ET

def main():
    workers = "12"
    if "-n" in sys.argv:
        workers = sys.argv[sys.argv.index("-n") + 1]
    base = json.load(open("/root/.vp/BASELINE.json"))
    stable = set(base["stable_pass"])
    env = dict(os.environ)
    for k in list(env):
        if k.startswith("TENSORA_VERIF"):
            del env[k]
    with tempfile.TemporaryDirectory(dir="/verif/.work" if os.path.isdir("/verif/.work") else None) as d:
        junit = os.path.join(d, "junit.xml")
        cmd = ["/venv/bin/python", "-m", "pytest", "-q", "-p", "no:cacheprovider", "--timeout=900",
               "--continue-on-collection-errors", "-n", workers, f"--junitxml={junit}",
               "--deselect", "fuzz_tests/test_cli.py::test_cli_cannot_crash",
               "--deselect", "fuzz_tests/test_generate.py::test_generate_cannot_crash"]
        r = subprocess.run(cmd, cwd="/repo", env=env, capture_output=True, text=True)
        print(r.stdout[-600:])
        passed = set()
        for tc in ET.parse(junit).getroot().iter("testcase"):
            if not any(ch.tag in ("failure", "error", "skipped") for ch in tc):
                passed.add(f"{tc.get('classname')}::{tc.get('name')}")
    missing = sorted(stable - passed)
    print(f"stable_pass={len(stable)} passed_now={len(passed)} missing={len(missing)}")
    for m in missing[:20]:
        print("MISSING", m)
    sys.exit(0 if not missing else 1)

main()
