#!/bin/sh
# usage: w3batch.sh <worktree-dir> <PROP> < lines "<n>|<seed-id>|<needs>|<checks separated by spaces>"
# Runs the seeded changes of ONE scratch worktree one after the other (demo + checks via the worktree;
# the repository's suite is confirmed later with seedrun.py --suite-only).
wt=$1
prop=$2
mkdir -p /verif/.work/w3
while IFS='|' read -r n id needs checks; do
  [ -z "$n" ] && continue
  python3 /verif/tools/seedrun.py "$wt" "$n" "$id" "$prop" "$needs" $checks --skip-suite --via-worktree > "/verif/.work/w3/$id.log" 2>&1
done
